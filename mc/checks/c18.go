package checks

import (
	"fmt"
	"regexp"
	"regexp/syntax"
	"strings"

	"mvdan.cc/sh/v3/pattern"

	"verif/mc/enum"
	"verif/mc/vc"
)

func init() { Registry["C18"] = c18 }

// literalLanguage reports whether the regular expression (as produced with
// EntireString) denotes exactly one string, and which.
func literalLanguage(expr string) (string, bool) {
	re, err := syntax.Parse(expr, syntax.Perl)
	if err != nil {
		return "", false
	}
	re = re.Simplify()
	var sb strings.Builder
	var walk func(r *syntax.Regexp) bool
	begin, end := 0, 0
	walk = func(r *syntax.Regexp) bool {
		switch r.Op {
		case syntax.OpConcat:
			for _, s := range r.Sub {
				if !walk(s) {
					return false
				}
			}
			return true
		case syntax.OpLiteral:
			if r.Flags&syntax.FoldCase != 0 {
				return false
			}
			sb.WriteString(string(r.Rune))
			return true
		case syntax.OpEmptyMatch:
			return true
		case syntax.OpBeginText:
			begin++
			return sb.Len() == 0
		case syntax.OpEndText:
			end++
			return true
		}
		return false
	}
	if !walk(re) || begin != 1 || end != 1 {
		return "", false
	}
	return sb.String(), true
}

func unescapePattern(p string) string {
	var sb strings.Builder
	for i := 0; i < len(p); i++ {
		if p[i] == '\\' && i+1 < len(p) {
			i++
		}
		sb.WriteByte(p[i])
	}
	return sb.String()
}

func c18(c *vc.Ctx) {
	alphabet := []string{"a", "*", "?", "[", "]", `\`, "-", "!", "^", "(", ")", ".", "|", "+", "$", "{", "é", "\n", "@"}
	maxLen := vc.Pick(c, 4, 5)
	var universe []string
	enum.Strings([]string{"a", "*", "?", "[", "]", `\`, "-", "."}, 3, func(s string) { universe = append(universe, s) })
	c.Rule = fmt.Sprintf("all strings of <=%d symbols over %q, each used both as s (QuoteMeta) and as p (HasMeta); the language of the resulting regexp is decided exactly by parsing it with regexp/syntax (must be ^literal$) and additionally probed on %d strings plus strings derived from the case; distinct = distinct (HasMeta, language) outcomes", maxLen, alphabet, len(universe))
	type cs struct {
		S string `json:"s"`
	}
	derived := func(s string) []string {
		out := []string{s, unescapePattern(s), s + "a", "a" + s, s + s, strings.ToUpper(s)}
		rs := []rune(s)
		for i := range rs {
			out = append(out, string(rs[:i])+string(rs[i+1:]))
			out = append(out, string(rs[:i])+"a"+string(rs[i+1:]))
		}
		return out
	}
	complete := vc.Run(c, func(emit func(cs)) {
		enum.Strings(alphabet, maxLen, func(s string) { emit(cs{s}) })
	}, func(t cs) *vc.Fail {
		s := t.S
		key := fmt.Sprintf("%q", s)
		// clause 1: QuoteMeta
		q := pattern.QuoteMeta(s, 0)
		if pattern.HasMeta(q, 0) {
			return vc.Failf(key+" hasmeta-of-quotemeta", "HasMeta(QuoteMeta(%q)=%q) is true", s, q)
		}
		for _, mode := range []pattern.Mode{pattern.EntireString, pattern.EntireString | pattern.ExtendedOperators, pattern.EntireString | pattern.Filenames} {
			if mode&pattern.ExtendedOperators != 0 {
				// QuoteMeta documents quoting of *, ?, [ and \ only; extended
				// operators are outside its contract.
				continue
			}
			expr, err := pattern.Regexp(q, mode)
			if err != nil {
				return vc.Failf(key+" quotemeta-err", "Regexp(QuoteMeta(%q)=%q, %s) fails: %v", s, q, modeString(mode), err)
			}
			rx, err := regexp.Compile(expr)
			if err != nil {
				return vc.Failf(key+" quotemeta-compile", "Regexp(QuoteMeta(%q)=%q) = %q does not compile", s, q, expr)
			}
			lit, ok := literalLanguage(expr)
			if !ok || lit != s {
				return vc.Failf(key+" quotemeta-lang "+modeString(mode), "Regexp(QuoteMeta(%q)=%q, %s) = %q does not denote exactly {%q} (literal=%q ok=%v)", s, q, modeString(mode), expr, s, lit, ok)
			}
			if !rx.MatchString(s) {
				return vc.Failf(key+" quotemeta-nomatch", "QuoteMeta(%q)=%q does not match the string itself", s, q)
			}
			for _, u := range append(derived(s), universe...) {
				if u != s && rx.MatchString(u) {
					return vc.Failf(key+" quotemeta-extra", "QuoteMeta(%q)=%q also matches %q", s, q, u)
				}
			}
		}
		// clause 2: HasMeta false => at most one string
		p := s
		hm := pattern.HasMeta(p, 0)
		outcome := "meta"
		if !hm {
			expr, err := pattern.Regexp(p, pattern.EntireString)
			if err != nil {
				outcome = "nometa-error"
			} else {
				rx, err := regexp.Compile(expr)
				if err != nil {
					return vc.Failf(key+" nometa-compile", "Regexp(%q) = %q does not compile", p, expr)
				}
				want := unescapePattern(p)
				lit, ok := literalLanguage(expr)
				if !ok || lit != want {
					return vc.Failf(key+" nometa-lang", "HasMeta(%q) is false but Regexp = %q does not denote only {%q}", p, expr, want)
				}
				for _, u := range append(derived(p), universe...) {
					if u != want && rx.MatchString(u) {
						return vc.Failf(key+" nometa-extra", "HasMeta(%q) is false but the pattern matches %q besides %q", p, u, want)
					}
				}
				outcome = "nometa-literal"
			}
		}
		c.Distinct(outcome + q)
		if len(s) == maxLen {
			c.Sample(map[string]any{"s": s, "QuoteMeta": q, "HasMeta": hm})
		}
		return nil
	})
	c.Finish(complete)
}
