package checks

import (
	"fmt"
	"strings"
	"sync"

	"mvdan.cc/sh/v3/syntax"

	"verif/mc/vc"
)

func init() { Registry["C12"] = c12 }

// c12Case is one (program, language) pair. The program is a token list; its
// text is c12Render(Toks, NoFlush).
type c12Case struct {
	Toks []string `json:"toks"`
	Lang string   `json:"lang"` // "bash": Parse(LangBash) vs bash -n; "posix": Parse(LangPOSIX) vs dash -n
	// Kind: "seq" (space a), "base" / "del" / "dup" / "swap" / "ins" (space b), "unclosed" (space c)
	Kind    string `json:"kind"`
	NoFlush bool   `json:"noflush,omitempty"`
}

func c12(c *vc.Ctx) {
	maxLen := 4
	len5 := vc.Pick(c, 0, 5) // thorough: length-5 sequences over the reduced alphabet c12Alphabet5
	depth := 2
	subs := vc.Pick(c, 0, 1)
	unclosedLen := vc.Pick(c, 2, 3)
	stride := uint32(vc.Pick(c, 8000, 60000))
	progs := c12Programs(depth, subs)
	c.Rule = fmt.Sprintf("(a) every token sequence of length <= %d over the %d-token shared core alphabet %q joined by single spaces (a here-document token gets its body after the next newline token or at the end)%s; "+
		"(b) the %d programs of the token-level shared core grammar (c12_gen.go: %d templates, %d word atoms, nesting depth %d, nested statements: %s) and every single-token mutation of each (delete token i, duplicate it, swap i/i+1, insert each alphabet token at every position), deduplicated by text; "+
		"(c) every sequence of length <= %d containing the here-document token, rendered without any here-document body (unclosed here-documents; one real shell process per case); "+
		"each program is judged twice: Parse(Variant(LangBash)) against bash -n and Parse(Variant(LangPOSIX)) against dash -n; an evaluation is one (program, language) pair",
		maxLen, len(c12Alphabet), c12Alphabet, map[bool]string{false: "", true: fmt.Sprintf(", and every sequence of length 5 over the %d-token sub-alphabet %q", len(c12Alphabet5), c12Alphabet5)}[len5 == 5], len(progs), len(c12Templates), len(c12Words), depth, []string{"the core subset c12CoreSubs", "every depth-1 program with default words", "every depth-1 program"}[subs], unclosedLen)
	c.Assumptions = []string{
		"bash 5.2.15 and the installed dash are the reference shells; acceptance by a shell is judged as the repository's confirmParse does: `<shell> -n` with the program on stdin, rejected iff non-zero exit status or a non-empty stderr line without \"warning:\"",
		"throughput: one long-lived process per shell and batch parses each case without executing it (eval of `return 0; __g() { CASE\\n}` and of `return 0; if false; then CASE\\nfi`; accepted iff both parse); this in-process verdict is validated against real `<shell> -n` processes: every in-process ACCEPT is re-judged by `<shell> -n` on the concatenation of the accepted cases of the batch (bisecting on rejection), every in-process REJECT whose text hash falls on a deterministic stride is re-judged by its own process, and divergences from the parser are re-judged by their own process before they are reported (every unclassified one up to 40 per batch and language, the first 2 of each class per batch; a reported failure is re-executed alone, which uses the real process only); the real verdict wins and mismatches are counted and listed (wrapper_*); remaining in-process REJECT verdicts that agree with the parser are trusted on the strength of that validation",
		"the documented intentional differences (repository tables: flipConfirm entries of syntax/parser_test.go) are named predicates in c12_class.go; cases matching one are counted (intentional_*) and not compared",
	}
	c.Reruns = 1
	vc.AtExit = func() {
		c12MismatchMu.Lock()
		if len(c12Mismatches) > 0 {
			c.Extra["wrapper_mismatch_examples"] = c12Mismatches
		}
		c12MismatchMu.Unlock()
		c12Cleanup()
	}
	sh := map[string]c12Shell{"bash": {"bash", c12ScratchDir()}, "posix": {"dash", c12ScratchDir()}}
	c.Extra["base_programs"] = len(progs)

	gen := func(emit func(c12Case)) {
		both := func(toks []string, kind string, noflush bool) {
			emit(c12Case{toks, "bash", kind, noflush})
			emit(c12Case{toks, "posix", kind, noflush})
		}
		seqs := func(alpha []string, lo, hi int, f func([]string)) {
			for n := lo; n <= hi; n++ {
				idx := make([]int, n)
				for {
					toks := make([]string, n)
					for i, j := range idx {
						toks[i] = alpha[j]
					}
					f(toks)
					k := n - 1
					for k >= 0 {
						idx[k]++
						if idx[k] < len(alpha) {
							break
						}
						idx[k] = 0
						k--
					}
					if k < 0 {
						break
					}
				}
			}
		}
		// (a) up to length 4
		seqs(c12Alphabet, 0, maxLen, func(t []string) { both(t, "seq", false) })
		// (c) unclosed here-documents
		seqs(c12Alphabet, 1, unclosedLen, func(t []string) {
			for _, x := range t {
				if x == "<<H" {
					both(t, "unclosed", true)
					return
				}
			}
		})
		// (b) base programs and mutants
		seen := map[string]bool{}
		for _, p := range progs {
			if s := c12Render(p, false); !seen[s] {
				seen[s] = true
				both(p, "base", false)
			}
		}
		for _, p := range progs {
			c12Mutants(p, func(m []string, note string) {
				s := c12Render(m, false)
				if seen[s] {
					return
				}
				seen[s] = true
				both(m, note, false)
			})
		}
		seen = nil
		// (a) length 5 last, so that a budget overrun cuts the tail of this part only
		if len5 == 5 {
			seqs(c12Alphabet5, 5, 5, func(t []string) { both(t, "seq", false) })
		}
	}

	run := func(batch []c12Case) []*vc.Fail {
		fails := make([]*vc.Fail, len(batch))
		for _, lang := range []string{"bash", "posix"} {
			var idx []int
			for i, cs := range batch {
				if cs.Lang == lang {
					idx = append(idx, i)
				}
			}
			if len(idx) == 0 {
				continue
			}
			c12Judge(c, sh[lang], lang, batch, idx, fails, stride)
		}
		return fails
	}
	complete := vc.RunBatch(c, 40000, gen, run)
	c.Finish(complete)
}

// c12Parse returns "" when the parser accepts src in the given mode, else the
// error text.
func c12Parse(lang, src string) (msg string, fail *vc.Fail) {
	v := syntax.LangBash
	if lang == "posix" {
		v = syntax.LangPOSIX
	}
	fail = guard(lang+"|"+src, func() {
		_, err := syntax.NewParser(syntax.Variant(v)).Parse(strings.NewReader(src), "")
		if err != nil {
			msg = err.Error()
			if msg == "" {
				msg = "(empty error)"
			}
		}
	})
	return msg, fail
}

// c12Judge judges the cases batch[idx...] (all of one language).
func c12Judge(c *vc.Ctx, sh c12Shell, lang string, batch []c12Case, idx []int, fails []*vc.Fail, stride uint32) {
	n := len(idx)
	srcs := make([]string, n)
	perr := make([]string, n)
	accept := make([]bool, n)    // shell verdict
	judged := make([]bool, n)    // shell verdict available
	confirmed := make([]bool, n) // verdict comes from (or was re-judged by) a real `<shell> -n` process of its own
	for k, i := range idx {
		srcs[k] = c12Render(batch[i].Toks, batch[i].NoFlush)
		perr[k], fails[i] = c12Parse(lang, srcs[k])
	}
	realOne := func(k int) {
		ok, j, _ := sh.real(srcs[k])
		c.Count("real_processes_"+lang, 1)
		if !j {
			judged[k] = false
			return
		}
		accept[k], judged[k], confirmed[k] = ok, true, true
	}
	var wrapped []int
	for k, i := range idx {
		if n <= 2 || batch[i].NoFlush || strings.TrimSpace(srcs[k]) == "" {
			realOne(k)
		} else {
			wrapped = append(wrapped, k)
		}
	}
	if len(wrapped) > 0 {
		ws := make([]string, len(wrapped))
		for j, k := range wrapped {
			ws[j] = srcs[k]
		}
		res, err := sh.batch(ws)
		if err != nil {
			// not judged: counted below as skipped, and the run is not exhaustive
			c.CapNote("%s batch driver failed for %d cases: %v", lang, len(wrapped), err)
			res = make([]byte, len(wrapped))
		}
		var acc []int
		for j, k := range wrapped {
			judged[k] = res[j] != 0
			switch res[j] {
			case '3':
				accept[k] = true
				acc = append(acc, k)
			case '1':
				c.Count("wrapper_enclosures_disagree_"+lang, 1)
			}
		}
		// validation 1: every in-process accept, by the real shell on the concatenation
		np := 0
		for _, k := range sh.rejectedAmong(srcs, acc, &np) {
			c12NoteMismatch(lang, srcs[k], true)
			c.Count("wrapper_accept_but_real_rejects_"+lang, 1)
			accept[k], confirmed[k] = false, true
		}
		c.Count("real_processes_"+lang, np)
		c.Count("wrapper_accepts_validated_in_bulk_"+lang, len(acc))
		// validation 2: strided in-process rejects; and divergences from the
		// parser: every unclassified one (up to 40 per batch and language),
		// the first 2 of each class per batch (processes are expensive here)
		nconf := map[string]int{}
		for _, k := range wrapped {
			if confirmed[k] {
				continue
			}
			diverges := (perr[k] == "") != accept[k]
			onStride := !accept[k] && c12Hash(srcs[k])%stride == 0
			if diverges {
				toks := batch[idx[k]].Toks
				if c12Intentional(lang, toks, srcs[k], perr[k], accept[k]) != "" {
					diverges = false
				} else {
					cl := c12Class(lang, toks, srcs[k], perr[k], accept[k])
					nconf[cl]++
					if (cl != "" && nconf[cl] > 2) || nconf[cl] > 40 {
						diverges = false
					}
				}
			}
			if !diverges && !onStride {
				continue
			}
			was := accept[k]
			realOne(k)
			if !judged[k] {
				continue
			}
			if onStride {
				c.Count("wrapper_rejects_validated_on_stride_"+lang, 1)
			}
			if accept[k] != was {
				c12NoteMismatch(lang, srcs[k], was)
				if was {
					c.Count("wrapper_accept_but_real_rejects_"+lang, 1)
				} else {
					c.Count("wrapper_reject_but_real_accepts_"+lang, 1)
				}
			}
		}
	}
	for k, i := range idx {
		if fails[i] != nil {
			continue // parser panic
		}
		if !judged[k] {
			c.Count("skipped_shell_not_judged", 1)
			continue
		}
		pacc := perr[k] == ""
		if pacc == accept[k] {
			if pacc {
				c.Count("agree_accept_"+lang, 1)
				c.Distinct(lang + "|" + srcs[k])
			} else {
				c.Count("agree_reject_"+lang, 1)
			}
			continue
		}
		if name := c12Intentional(lang, batch[i].Toks, srcs[k], perr[k], accept[k]); name != "" {
			c.Count("intentional_"+name+"_"+lang, 1)
			c.Sample(map[string]any{"intentional": name, "lang": lang, "src": srcs[k], "parser": perr[k], "shell_accepts": accept[k]})
			continue
		}
		dir := "parser-accepts-shell-rejects"
		if !pacc {
			dir = "parser-rejects-shell-accepts"
		}
		fails[i] = &vc.Fail{
			Key:    fmt.Sprintf("%s|%q|%s", lang, srcs[k], dir),
			Msg:    fmt.Sprintf("%s mode: %s for %s (parser: %s)", lang, dir, shortSrc(srcs[k]), orStr(perr[k], "accepted")),
			Class:  c12Class(lang, batch[i].Toks, srcs[k], perr[k], accept[k]),
			Detail: map[string]any{"src": srcs[k], "lang": lang, "parser_error": perr[k], "shell": sh.name, "shell_accepts": accept[k], "confirmed_by_own_shell_process": confirmed[k]},
		}
	}
}

var (
	c12MismatchMu sync.Mutex
	c12Mismatches []string
)

// c12NoteMismatch records (for the evidence) a case where the in-process
// verdict differed from the real `<shell> -n` process; the real verdict is
// the one that is used.
func c12NoteMismatch(lang, src string, wrapperAccepted bool) {
	c12MismatchMu.Lock()
	if len(c12Mismatches) < 40 {
		c12Mismatches = append(c12Mismatches, fmt.Sprintf("%s wrapper_accepts=%v %q", lang, wrapperAccepted, src))
	}
	c12MismatchMu.Unlock()
}

func orStr(s, d string) string {
	if s == "" {
		return d
	}
	return s
}
