package checks

import (
	"fmt"
	"reflect"
	"sort"
	"strconv"
	"strings"
	"sync"

	"mvdan.cc/sh/v3/syntax"

	"verif/mc/vc"
)

var c14NodeIface = reflect.TypeOf((*syntax.Node)(nil)).Elem()

// c14Exp is one expected node: a value reachable from the root through
// exported fields whose pointer type implements syntax.Node.
type c14Exp struct {
	node   syntax.Node // pointer to the value inside the tree
	typ    string      // "Stmt"
	path   string      // owner and field(s) it is reached through, "ParamExp.Slice.Offset"
	slot   int         // index within the slice holding it, or -1
	parent int         // index of the closest enclosing node, -1 for the root
	end    int         // one past the index of its last descendant
}

type c14Tree struct {
	nodes    []c14Exp
	ptr      map[syntax.Node]int32    // pointer identity (type + address)
	cms      map[syntax.Comment]int32 // Comment nodes by value
	shared   []string                 // paths of nodes reachable twice
	typedNil int                      // interface fields holding a nil pointer
	lc       *c14Local
	bit      uint8
}

// c14Field caches what the traversal needs to know about a struct field.
type c14Field struct {
	index int
	name  string
	key   string // "Struct.Field"
	id    int    // coverage slot
}

type c14TypeInfo struct {
	name   string
	isNode bool // pointer type implements Node
	fields []c14Field
}

var (
	c14Types     sync.Map // reflect.Type (struct) -> *c14TypeInfo
	c14FieldMu   sync.Mutex
	c14FieldKeys []string // coverage slot -> "Struct.Field"
)

// c14Bearing reports whether a field of type t can hold nodes.
func c14Bearing(t reflect.Type, depth int) bool {
	if depth > 4 {
		return false
	}
	switch t.Kind() {
	case reflect.Interface:
		return true
	case reflect.Pointer:
		return t.Elem().Kind() == reflect.Struct && (t.Implements(c14NodeIface) || c14StructBearing(t.Elem(), depth+1))
	case reflect.Slice, reflect.Array:
		return c14Bearing(t.Elem(), depth+1)
	case reflect.Struct:
		return reflect.PointerTo(t).Implements(c14NodeIface) || c14StructBearing(t, depth+1)
	case reflect.Map:
		return c14Bearing(t.Elem(), depth+1)
	}
	return false
}

func c14StructBearing(t reflect.Type, depth int) bool {
	for i := 0; i < t.NumField(); i++ {
		if f := t.Field(i); f.IsExported() && c14Bearing(f.Type, depth) {
			return true
		}
	}
	return false
}

func c14Info(t reflect.Type) *c14TypeInfo {
	if v, ok := c14Types.Load(t); ok {
		return v.(*c14TypeInfo)
	}
	c14FieldMu.Lock()
	defer c14FieldMu.Unlock()
	if v, ok := c14Types.Load(t); ok {
		return v.(*c14TypeInfo)
	}
	ti := &c14TypeInfo{name: t.Name(), isNode: reflect.PointerTo(t).Implements(c14NodeIface)}
	for i := 0; i < t.NumField(); i++ {
		f := t.Field(i)
		if !f.IsExported() || !c14Bearing(f.Type, 0) {
			continue
		}
		key := t.Name() + "." + f.Name
		ti.fields = append(ti.fields, c14Field{index: i, name: f.Name, key: key, id: len(c14FieldKeys)})
		c14FieldKeys = append(c14FieldKeys, key)
	}
	c14Types.Store(t, ti)
	return ti
}

func c14Build(root syntax.Node, lc *c14Local, lang syntax.LangVariant) *c14Tree {
	t := &c14Tree{ptr: make(map[syntax.Node]int32, 48), lc: lc, nodes: make([]c14Exp, 0, 48)}
	for i, v := range c14LangBits {
		if v == lang {
			t.bit = 1 << i
		}
	}
	t.value(reflect.ValueOf(root), -1, "(root)", -1)
	return t
}

func (t *c14Tree) addNode(ptr reflect.Value, parent int, path string, slot int) int {
	n := ptr.Interface().(syntax.Node)
	idx := len(t.nodes)
	if cm, ok := n.(*syntax.Comment); ok {
		if t.cms == nil {
			t.cms = map[syntax.Comment]int32{}
		}
		if _, dup := t.cms[*cm]; dup {
			t.shared = append(t.shared, path)
		}
		t.cms[*cm] = int32(idx)
	} else {
		if _, dup := t.ptr[n]; dup {
			t.shared = append(t.shared, path)
		}
		t.ptr[n] = int32(idx)
	}
	t.nodes = append(t.nodes, c14Exp{node: n, typ: ptr.Type().Elem().Name(), path: path, slot: slot, parent: parent})
	return idx
}

// value visits v, which was reached from node `parent` through `path`.
func (t *c14Tree) value(v reflect.Value, parent int, path string, slot int) {
	switch v.Kind() {
	case reflect.Interface:
		if v.IsNil() {
			return
		}
		e := v.Elem()
		if e.Kind() == reflect.Pointer && e.IsNil() {
			t.typedNil++ // holds no node
			return
		}
		t.value(e, parent, path, slot)
	case reflect.Pointer:
		if v.IsNil() || v.Elem().Kind() != reflect.Struct {
			return
		}
		ti := c14Info(v.Elem().Type())
		if ti.isNode {
			idx := t.addNode(v, parent, path, slot)
			t.fields(v.Elem(), ti, idx, ti.name)
			t.nodes[idx].end = len(t.nodes)
			return
		}
		t.fields(v.Elem(), ti, parent, path) // *Slice, *Replace, *Expansion: transparent
	case reflect.Struct:
		ti := c14Info(v.Type())
		if ti.isNode && v.CanAddr() {
			idx := t.addNode(v.Addr(), parent, path, slot)
			t.fields(v, ti, idx, ti.name)
			t.nodes[idx].end = len(t.nodes)
			return
		}
		t.fields(v, ti, parent, path)
	case reflect.Slice, reflect.Array:
		for i := 0; i < v.Len(); i++ {
			t.value(v.Index(i), parent, path, i)
		}
	case reflect.Map:
		keys := v.MapKeys()
		sort.Slice(keys, func(i, j int) bool { return fmt.Sprint(keys[i]) < fmt.Sprint(keys[j]) })
		for _, k := range keys {
			t.value(v.MapIndex(k), parent, path, -1)
		}
	}
}

func (t *c14Tree) fields(s reflect.Value, ti *c14TypeInfo, owner int, prefix string) {
	for i := range ti.fields {
		fi := &ti.fields[i]
		fv := s.Field(fi.index)
		t.cover(fi, fv)
		p := fi.key
		if prefix != ti.name {
			p = prefix + "." + fi.name
		}
		t.value(fv, owner, p, -1)
	}
}

// cover records that the field holds something, and for interface-typed
// fields (or slices of interfaces) which dynamic types.
func (t *c14Tree) cover(fi *c14Field, fv reflect.Value) {
	if t.lc == nil {
		return
	}
	switch fv.Kind() {
	case reflect.Interface:
		if fv.IsNil() {
			return
		}
		t.lc.dyn[c14Dyn{fi.id, fv.Elem().Type()}] |= t.bit
	case reflect.Pointer:
		if fv.IsNil() {
			return
		}
	case reflect.Slice:
		if fv.Len() == 0 {
			return
		}
		if fv.Type().Elem().Kind() == reflect.Interface {
			for i := 0; i < fv.Len(); i++ {
				if e := fv.Index(i); !e.IsNil() {
					t.lc.dyn[c14Dyn{fi.id, e.Elem().Type()}] |= t.bit
				}
			}
		}
	}
	for len(t.lc.pairs) <= fi.id {
		t.lc.pairs = append(t.lc.pairs, 0)
	}
	t.lc.pairs[fi.id] |= t.bit
}

// lookup maps a node handed out by Walk to its expected index.
func (t *c14Tree) lookup(n syntax.Node) int32 {
	if cm, ok := n.(*syntax.Comment); ok {
		if cm == nil {
			return c14Unknown
		}
		if i, ok := t.cms[*cm]; ok {
			return i
		}
		return c14Unknown
	}
	if i, ok := t.ptr[n]; ok {
		return i
	}
	return c14Unknown
}

func c14Describe(n syntax.Node) string {
	v := reflect.ValueOf(n)
	if v.Kind() == reflect.Pointer && v.IsNil() {
		return fmt.Sprintf("(%T)(nil)", n)
	}
	return fmt.Sprintf("%T", n)
}

// shape identifies the tree up to positions and strings.
func (t *c14Tree) shape() string {
	buf := make([]byte, 0, 16*len(t.nodes))
	for _, n := range t.nodes {
		buf = append(buf, n.path...)
		buf = append(buf, '^')
		buf = strconv.AppendInt(buf, int64(n.parent), 10)
		buf = append(buf, ';')
	}
	return string(buf)
}

// missingLabel names an unvisited node by the field it hangs off. For
// elements of a slice it also tells which part of the slice was left out:
// [all], [tail] (a non-empty visited prefix, everything after it unvisited)
// or [mixed]; for Stmt.Comments additionally whether Stmt.End() is an
// invalid position (as RecoverErrors produces), which Walk's position
// comparison depends on.
func (t *c14Tree) missingLabel(i int, visited func(int) bool) string {
	nd := t.nodes[i]
	if nd.slot < 0 {
		return nd.path
	}
	// siblings in the same slice, in slot order (they are contiguous
	// subtrees in index order)
	var vis []bool
	for j := range t.nodes {
		if t.nodes[j].parent == nd.parent && t.nodes[j].path == nd.path && t.nodes[j].slot >= 0 {
			vis = append(vis, visited(j))
		}
	}
	nvis, prefix := 0, 0
	for _, v := range vis {
		if v {
			nvis++
		}
	}
	for prefix < len(vis) && vis[prefix] {
		prefix++
	}
	label := "mixed"
	switch {
	case nvis == 0:
		label = "all"
	case prefix == nvis:
		label = "tail"
	}
	if nd.path == "Stmt.Comments" && nd.parent >= 0 {
		if st, ok := t.nodes[nd.parent].node.(*syntax.Stmt); ok && !st.End().IsValid() {
			label += ",end-unset"
		}
	}
	return nd.path + "[" + label + "]"
}

func (t *c14Tree) events(ev []int32) string {
	var sb strings.Builder
	for k, e := range ev {
		if k > 0 {
			sb.WriteByte(' ')
		}
		if k >= 60 {
			fmt.Fprintf(&sb, "…(%d more)", len(ev)-k)
			break
		}
		switch {
		case e == c14Nil:
			sb.WriteString("nil")
		case e == c14Unknown:
			sb.WriteString("?")
		default:
			fmt.Fprintf(&sb, "%s#%d", t.nodes[e].typ, e)
		}
	}
	return sb.String()
}

// ---- coverage of (struct, field) pairs, per worker, merged at the end

var c14LangBits = []syntax.LangVariant{syntax.LangBash, syntax.LangPOSIX, syntax.LangMirBSDKorn, syntax.LangBats, syntax.LangZsh}
var c14LangNames = []string{"bash", "posix", "mksh", "bats", "zsh"}

type c14Dyn struct {
	field int
	typ   reflect.Type
}

type c14Local struct {
	pairs []uint8
	dyn   map[c14Dyn]uint8
}

type c14Coverage struct {
	mu   sync.Mutex
	all  []*c14Local
	pool sync.Pool
	late map[string]int
}

func newC14Coverage() *c14Coverage {
	cv := &c14Coverage{late: map[string]int{}}
	cv.pool.New = func() any {
		lc := &c14Local{dyn: map[c14Dyn]uint8{}}
		cv.mu.Lock()
		cv.all = append(cv.all, lc) // stays referenced even if the pool drops it
		cv.mu.Unlock()
		return lc
	}
	return cv
}

func (cv *c14Coverage) local() *c14Local    { return cv.pool.Get().(*c14Local) }
func (cv *c14Coverage) release(l *c14Local) { cv.pool.Put(l) }

func (cv *c14Coverage) noteLate(path string) {
	cv.mu.Lock()
	cv.late[path]++
	cv.mu.Unlock()
}

func c14Langs(bits uint8) string {
	var out []string
	for i, n := range c14LangNames {
		if bits&(1<<i) != 0 {
			out = append(out, n)
		}
	}
	return strings.Join(out, ",")
}

// report merges the per-worker records, compares them with the declarations
// of syntax/nodes.go and stores the result in the evidence.
func (cv *c14Coverage) report(c *vc.Ctx) {
	cv.mu.Lock()
	defer cv.mu.Unlock()
	pairs := map[string]uint8{}
	dyn := map[string]uint8{}
	c14FieldMu.Lock()
	keys := append([]string(nil), c14FieldKeys...)
	c14FieldMu.Unlock()
	for _, lc := range cv.all {
		for id, b := range lc.pairs {
			if b != 0 {
				pairs[keys[id]] |= b
			}
		}
		for k, b := range lc.dyn {
			dyn[keys[k.field]+"="+k.typ.Elem().Name()] |= b
		}
	}
	decl, err := c14ReadDecls()
	if err != nil {
		c.CapNote("cannot read syntax/nodes.go for the field self-check: %v", err)
		return
	}
	var never, notParser []string
	populated := map[string]string{}
	for _, p := range decl.pairs {
		if b := pairs[p]; b != 0 {
			populated[p] = c14Langs(b)
		} else if c14OnlyFromAPI[p] != "" {
			notParser = append(notParser, p+" ("+c14OnlyFromAPI[p]+")")
		} else {
			never = append(never, p)
		}
	}
	var undeclared []string
	for p := range pairs {
		if !decl.hasPair[p] {
			undeclared = append(undeclared, p)
		}
	}
	sort.Strings(undeclared)
	var neverDyn []string
	seenDyn := 0
	for _, tr := range decl.triples {
		if dyn[tr] != 0 {
			seenDyn++
		} else if !c14TripleNotFromParser(tr) {
			neverDyn = append(neverDyn, tr)
		}
	}
	c.Extra["selfcheck_fields_declared"] = len(decl.pairs)
	c.Extra["selfcheck_fields_populated"] = len(populated)
	c.Extra["selfcheck_fields_populated_by_variant"] = populated
	c.Extra["selfcheck_fields_never_populated"] = never
	c.Extra["selfcheck_fields_not_produced_by_parser"] = notParser
	c.Extra["selfcheck_dynamic_types_declared"] = len(decl.triples)
	c.Extra["selfcheck_dynamic_types_seen"] = seenDyn
	c.Extra["selfcheck_dynamic_types_never_seen"] = neverDyn
	if len(undeclared) > 0 {
		c.Extra["selfcheck_fields_seen_but_not_in_nodes_go"] = undeclared
		c.CapNote("reflection met node-bearing fields that the reader of syntax/nodes.go does not list: %v", undeclared)
	}
	if len(never) > 0 {
		c.CapNote("node fields of syntax/nodes.go never populated by any enumerated tree (the check is vacuous for them): %v", never)
	}
	if len(cv.late) > 0 {
		c.Extra["children_visited_after_parents_nil_by_field"] = cv.late
	}
}
