package checks

import (
	"fmt"
	"strings"

	"mvdan.cc/sh/v3/syntax"

	"verif/mc/synt"
	"verif/mc/vc"
)

// synCase is one (program, variant) pair of the syntax checks.
type synCase struct {
	Src     string `json:"src"`
	Variant string `json:"variant"`
	// Tier of the program within the enumeration: 0 = corpus, 1 = grammar
	// depth<=1 default layout, 2 = single-gap layout deviation, 3 = depth 2.
	Kind int `json:"kind"`
}

type synSpace struct {
	Depth       int  // grammar depth for default-layout programs
	CoreOnly    bool // restrict nesting below the top level to core contexts
	LayoutDepth int  // single-gap layout deviations for templates up to this depth (-1: none)
	Corpus      bool
	// AllVariantsDeep: when false, only bash sees kinds 2 and 3.
	AllVariantsDeep bool
	// Variants restricts the variants (nil = all).
	Variants []string
}

func (s synSpace) describe() string {
	return fmt.Sprintf("programs = string literals of the repository's syntax test tables (extracted from the working tree) + every expansion of the hand-written union grammar (mc/synt/gram.go: %d templates) to nesting depth %d (below the top level only core contexts: %v) in default layout + every single-gap layout deviation (double space, tab, escaped newline, newline, blank line, comment line, trailing comment) of the depth<=%d programs; each program is taken in every language variant in which it parses (deep/layout programs in all variants: %v)",
		synt.NumProductions(), s.Depth, s.CoreOnly, s.LayoutDepth, s.AllVariantsDeep)
}

// genSyn emits every (program, variant) pair of the space where the program
// parses in that variant. Parsing here is only a filter; each check parses
// again itself.
func genSyn(c *vc.Ctx, s synSpace, emit func(synCase)) {
	variants := synt.Variants
	want := func(name string) bool {
		if s.Variants == nil {
			return true
		}
		for _, v := range s.Variants {
			if v == name {
				return true
			}
		}
		return false
	}
	seen := map[string]bool{}
	one := func(src string, kind int) {
		if seen[src] {
			return
		}
		seen[src] = true
		for _, v := range variants {
			if !want(v.Name) {
				continue
			}
			if kind >= 2 && !s.AllVariantsDeep && v.Name != "bash" {
				continue
			}
			emit(synCase{src, v.Name, kind}) // checks skip the pairs that do not parse
		}
	}
	if s.Corpus {
		for _, src := range synt.SyntaxCorpus() {
			one(src, 0)
		}
	}
	synt.Sources(min(s.Depth, 1), false, -1, func(x synt.Source) { one(x.Text, 1) })
	if s.LayoutDepth >= 0 {
		synt.Sources(s.LayoutDepth, s.CoreOnly, s.LayoutDepth, func(x synt.Source) {
			if x.Gap >= 0 {
				one(x.Text, 2)
			}
		})
	}
	if s.Depth >= 2 {
		synt.Sources(s.Depth, s.CoreOnly, -1, func(x synt.Source) { one(x.Text, 3) })
	}
}

func parseVariant(src, variant string, opts ...syntax.ParserOption) (*syntax.File, error) {
	o := append([]syntax.ParserOption{syntax.Variant(synt.LangByName(variant)), syntax.KeepComments(true)}, opts...)
	return syntax.NewParser(o...).Parse(strings.NewReader(src), "")
}

func shortSrc(s string) string {
	if len(s) > 120 {
		return fmt.Sprintf("%q…", s[:120])
	}
	return fmt.Sprintf("%q", s)
}
