package checks

import (
	"fmt"
	"runtime/debug"

	"verif/mc/vc"
)

// guard runs f (a call into the code under test) and turns a panic into a
// failure for this case alone.
func guard(key string, f func()) (fail *vc.Fail) {
	defer func() {
		if r := recover(); r != nil {
			fail = &vc.Fail{Key: key + " panic", Msg: fmt.Sprintf("%s: panic: %v", key, r), Detail: string(debug.Stack()), Class: "panic"}
		}
	}()
	f()
	return nil
}
