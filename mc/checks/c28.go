package checks

// C28: the interpreter never panics.
//
// Bounded-exhaustive spaces, all executed in child processes (see
// c28_child.go for why):
//
//  0. (round 3) two boundary families that come first: every arithmetic
//     operator x every pair of boundary operands in the evaluating and
//     consuming contexts (c28_arith.go), and state-establishing preludes x
//     the names they define x the calls that consult that state
//     (c28_state.go);
//  1. every program of the syntax space (repository test-table literals +
//     union grammar + layout deviations) and of the interpreter test corpus,
//     in every variant in which it parses, under four variable environments;
//  2. every builtin with every argument vector up to a length over an
//     alphabet, in three setups; every pair (thorough: also triples over a
//     core menu) of consecutive calls of the stateful builtins;
//  3. every vector of RunnerOptions up to a length over a menu, and every
//     Params argument vector, followed by a tiny Run.
//
// Oracle: Runner.Run (and New, and the option) returns; a recovered panic or a
// crashed child is a failure. Errors, exit statuses, deadlines are fine.

import (
	"fmt"
	"hash/fnv"
	"os"
	"sort"
	"strings"

	"verif/mc/enum"
	"verif/mc/synt"
	"verif/mc/vc"
)

func init() { Registry["C28"] = c28 }

func c28(c *vc.Ctx) {
	names, err := c28BuiltinNames()
	if err != nil {
		fmt.Fprintln(os.Stderr, "C28:", err)
		os.Exit(2)
	}
	space := synSpace{Depth: vc.Pick(c, 1, 2), CoreOnly: true, LayoutDepth: vc.Pick(c, 0, 1), Corpus: true, AllVariantsDeep: true}
	argLen := vc.Pick(c, 2, 3)
	optLen := vc.Pick(c, 2, 3)
	parLen := vc.Pick(c, 3, 4)
	testLen := vc.Pick(c, 4, 5)
	wallMS := vc.Pick(c, 400, 600)
	steps := vc.Pick(c, 1500, 4000)
	menu := c28Stateful(!c.Quick())
	var core []c28Item
	for _, it := range menu {
		if it.Core {
			core = append(core, it)
		}
	}
	triples := !c.Quick()
	pairSetups := vc.Pick(c, []int{1, 2}, []int{0, 1, 2})
	parAlpha := []string{"", "-", "+", "--", "-e", "+e", "-o", "+o", "errexit", "nosuch", "-eu", "-z", "a", "-x"}

	c.Rule = "(0a) arithmetic boundary family: " + c28ArithDescribe() + fmt.Sprintf("; evaluated by `echo $((E))` (thorough: in every variant in which the operator parses), by `((E))` and `let E` (quick: left operands 1 and n only; thorough: all pairs), the %d unary/bare expressions in all 3 evaluating and %d consuming contexts (slice offset/length of a string, $@, indexed/sparse arrays; subscripts in expansion, assignment, append, unset, array literals, associative arrays; shift/return/break/exit counts; declare -i; [[ -le ]]/[ -ge ]; C-style for; OPTIND before getopts; thorough: every operator x pair in every consuming context too), and `${T: off: len}` for ALL operand pairs over the targets %q; ", c28ArithNSmall(), len(c28ArithConsume1), c28ArithSliceTargets) +
		"(0b) state family: preludes {" + c28ZooDescribe(!c.Quick()) + fmt.Sprintf("} (aliases with empty/blank/trailing-blank/multi-word/self-referential/unparsable/chained values with expand_aliases on, off and through New(Interactive(true)); functions incl. self-removing and self-redefining; namerefs to a variable, an element, nothing, itself, a cycle, the empty name; readonly/integer/exported scalars, arrays and functions; traps; a directory stack; a getopts scan in the middle of an option group; set -u; odd positional parameters; thorough: also the union of all and everything under Interactive(true)) x every NAME the prelude defines x %d argument templates + %d identifier templates (type/command -v -V/alias/unalias/declare/typeset/unset/readonly/export/local/trap/pushd/popd/dirs/getopts/shift/return/break/eval/source/hash/shopt/set/read/mapfile/printf -v/wait/test -v -R -o/let, invocation in 12 command contexts, 22 parameter expansions, arithmetic, 11 assignment forms, function definitions, loops) + %d name-less calls per prelude, each followed by inspectors of the same NAME (type, command -v/-V, alias, declare -p/-f/-F, trap -p, dirs -v, export -p, readonly -p, invocation, expansion) and the common epilogue; thorough: ALL ordered pairs of %d+%d core calls on the same name; ", len(c28ZooArgT), len(c28ZooIdentT), len(c28ZooNoNameT), len(c28ZooCoreArgT), len(c28ZooCoreIdentT)) +
		"(1) " + space.describe() + fmt.Sprintf(" + the string literals of interp/interp_test.go; each distinct syntax tree (dump without positions; layout deviations and variants that give the same tree are run once) is run by a fresh Runner under %d variable environments (x,y,a unset / strings + positional parameters / indexed arrays / associative arrays); ", c28NumModes) +
		fmt.Sprintf("(2) each of the %d builtins (string literals of interp.IsBuiltin in the working tree + declaration keywords) with ALL argument vectors of length <=%d (one less for the builtins that only print 'unsupported builtin') over the common alphabet %q plus per-builtin symbols (c28_builtins.go), in 3 setups (top level without parameters; after `set -- p -ab q` with variables; inside a for loop inside a function; vectors of length 3 only in the second), declaration keywords both with unquoted and quoted arguments, standard input is a short regular file (read, mapfile, readarray also with a strings.Reader, an empty reader and no stdin), also behind `builtin`/`command` with <=%d arguments; `test` and `[ ... ]` additionally with ALL operand vectors of length <=%d over %q; ALL ordered pairs of the %d calls of the stateful-builtin menu (getopts, shift, set, OPTIND, pushd/popd/cd, trap, read, mapfile, declare/local, unset, wait, return/break/continue, functions, alias, source/eval) in the setups %v", len(names), argLen, c28Common, argLen-1, testLen, c28TestAlpha, len(menu), pairSetups) +
		func() string {
			if triples {
				return fmt.Sprintf(", and ALL ordered triples of the %d core calls (in the function/loop setup)", len(core))
			}
			return ""
		}() +
		fmt.Sprintf("; each followed by an epilogue that reads the state ($#, $@, arrays, OPTIND, dirs, getopts, shift); (3) interp.New with ALL option vectors of length <=%d over a menu of %d options (Params/Dir/Env/StdIO/Interactive/handlers incl. odd and nil values) and ALL Params argument vectors of length <=%d over %q, passed to New before/after StdIO or applied to an existing runner, each followed by a tiny program run twice plus after Reset. ", optLen, len(c28OptMenu), parLen, parAlpha) +
		"Oracle: no panic (recovered around New/Run in the worker process, or the worker process dying with a Go crash report when the panic is in a goroutine started by the interpreter). distinct = distinct (part, status, stdout, stderr) outcomes"
	c.Assumptions = []string{
		"external commands are never started: an exec middleware emulates true/false/echo/cat/sleep and answers 127 for the rest; file access is confined to a per-worker scratch directory and /dev/null through the open and readdir handlers",
		fmt.Sprintf("hang guards, not oracles: a run is cancelled through its context after %d simple commands (counted by a call handler) or %d ms; such runs are counted (steps_hit, deadline_hit), a panic before the cancellation is still reported", steps, wallMS),
		"handlers documented as 'must not be nil' (open, readdir, stat, access), a call handler returning an empty argument list (documented as unsupported) and Runner literals not built by New (documented panic) are outside the option space",
		"a worker process dying is attributed to the case in flight; the worker waits for the goroutines of a case to end before taking the next one",
	}

	// development aid: VERIF_C28_PARTS=prog,pair restricts the parts (the run
	// is then reported as capped)
	only := os.Getenv("VERIF_C28_PARTS")
	if only != "" {
		c.CapNote("VERIF_C28_PARTS=%s: only these parts were run", only)
	}
	want := func(part string) bool { return only == "" || strings.Contains(","+only+",", ","+part+",") }
	// a builtin whose implementation is the "unsupported builtin" default
	// ignores its arguments; it gets vectors one shorter
	implemented := map[string]bool{}
	for _, name := range names {
		rep := c28ThePool.exec(c28Case{Part: "blt", Src: name, Stdin: 1, WallMS: 2000})
		implemented[name] = !strings.Contains(rep.Stderr, "unsupported builtin")
	}
	nimpl := 0
	for _, ok := range implemented {
		if ok {
			nimpl++
		}
	}
	c.Extra["builtins_implemented"] = nimpl
	c.Extra["builtins_total"] = len(names)
	if nimpl < 40 {
		fmt.Fprintf(os.Stderr, "C28: only %d builtins look implemented\n", nimpl)
		os.Exit(2)
	}
	treeSeen := map[uint64]bool{}
	gen := func(emit0 func(c28Case)) {
		emit := func(t c28Case) {
			if want(t.Part) {
				emit0(t)
			}
		}
		// part 0 first (the two small boundary families, interleaved so that a
		// run cut short by its budget has seen the start of both), then 3, 2, 1
		// (the thorough tier's families are streamed, not held in memory)
		var fam [2][]c28Case
		put := func(k int, t c28Case) {
			if c.Quick() {
				fam[k] = append(fam[k], t)
			} else {
				emit(t)
			}
		}
		c28ArithGen(!c.Quick(), func(src, variant string) {
			// an operator whose left operand must be a name is rejected by the
			// parser when it is a literal: not a run
			if _, err := parseVariant(src, variant); err != nil {
				c.Count("arith_noparse_not_run", 1)
				return
			}
			put(0, c28Case{Part: "arith", Src: src, Variant: variant, Stdin: 3, WallMS: wallMS, Steps: steps})
		})
		c28ZooGen(!c.Quick(), func(src string, inter bool) {
			put(1, c28Case{Part: "zoo", Src: src, Inter: inter, Stdin: 3, WallMS: wallMS, Steps: steps})
		})
		for i := 0; i < len(fam[0]) || i < len(fam[1]); i++ {
			for k := range fam {
				if i < len(fam[k]) {
					emit(fam[k][i])
				}
			}
		}
		fam[0], fam[1] = nil, nil
		enum.Seqs(c28Indices(len(c28OptMenu)), optLen, func(v []int) {
			emit(c28Case{Part: "opts", Opts: append([]int(nil), v...)})
		})
		enum.Seqs(parAlpha, parLen, func(v []string) {
			for how := 0; how < 3; how++ {
				emit(c28Case{Part: "params", Args: append([]string{}, v...), How: how})
			}
		})
		// part 2a: single calls
		for _, name := range names {
			alpha := append(append([]string{}, c28Common...), c28Specific[name]...)
			modes := []int{0}
			for _, k := range c28DeclKeywords {
				if k == name {
					modes = []int{1, 2}
				}
			}
			stdins := []int{3}
			if c28ReadsStdin[name] {
				stdins = []int{3, 0, 1, 2}
			}
			seen := map[string]bool{}
			one := func(body string, stdin int, nargs int) {
				if seen[body] && stdin == 3 {
					return
				}
				seen[body] = true
				for setup := 0; setup < 3; setup++ {
					if nargs > 2 && setup != 1 {
						continue // the longest vectors (thorough tier) only after `set -- ...`
					}
					emit(c28Case{Part: "blt", Src: c28Wrap(setup, body), Stdin: stdin, WallMS: wallMS, Steps: steps})
				}
			}
			n := argLen
			if !implemented[name] {
				n--
			}
			enum.Seqs(alpha, n, func(v []string) {
				for _, m := range modes {
					body := c28Call(name, v, m)
					for _, si := range stdins {
						one(body, si, len(v))
					}
					if len(v) <= argLen-1 && name != "builtin" && name != "command" {
						one("builtin "+body, 3, len(v))
						one("command "+body, 3, len(v))
					}
				}
			})
		}
		// part 2a': test expressions need more operands than other builtins
		enum.Seqs(c28TestAlpha, testLen, func(v []string) {
			if len(v) <= argLen {
				return // covered above
			}
			emit(c28Case{Part: "blt", Src: c28Wrap(1, c28Call("test", v, 0)), Stdin: 3, WallMS: wallMS, Steps: steps})
			emit(c28Case{Part: "blt", Src: c28Wrap(1, c28Call("[", append(append([]string{}, v...), "]"), 0)), Stdin: 3, WallMS: wallMS, Steps: steps})
		})
		// part 2b: pairs (and triples) of consecutive calls
		for _, x := range menu {
			for _, y := range menu {
				for _, setup := range pairSetups {
					emit(c28Case{Part: "pair", Src: c28Wrap(setup, x.Code+"\n"+y.Code), Stdin: 3, WallMS: wallMS, Steps: steps})
				}
			}
		}
		if triples {
			for _, x := range core {
				for _, y := range core {
					for _, z := range core {
						for _, setup := range []int{2} {
							emit(c28Case{Part: "pair", Src: c28Wrap(setup, x.Code+"\n"+y.Code+"\n"+z.Code), Stdin: 3, WallMS: wallMS, Steps: steps})
						}
					}
				}
			}
		}
		// part 1: programs
		prog := func(t synCase) {
			// filter: must parse in the variant; each distinct tree is run once
			f, err := parseVariant(t.Src, t.Variant)
			if err != nil {
				c.Count("skipped_noparse", 1)
				return
			}
			h := fnv.New64a()
			h.Write([]byte(synt.Dump(f, synt.DumpOpts{})))
			if k := h.Sum64(); treeSeen[k] {
				c.Count("same_tree_not_rerun", 1)
				return
			} else {
				treeSeen[k] = true
			}
			for m := 0; m < c28NumModes; m++ {
				stdin := 3
				if m == 0 {
					stdin = 0 // a strings.Reader, the common way to embed the interpreter
				}
				emit(c28Case{Part: "prog", Src: t.Src, Variant: t.Variant, Kind: t.Kind, Mode: m, Stdin: stdin, WallMS: wallMS, Steps: steps})
			}
		}
		if !want("prog") {
			return
		}
		genSyn(c, space, prog)
		for _, src := range synt.InterpCorpus() {
			for _, v := range []string{"bash", "posix", "mksh", "zsh"} {
				prog(synCase{Src: src, Variant: v, Kind: 4})
			}
		}
	}

	if os.Getenv("VERIF_C28_COUNT") != "" {
		// development aid: size of the space per part, nothing is run
		n := map[string]int{}
		gen(func(t c28Case) { n[t.Part]++ })
		for _, k := range c28SortedKeys(n) {
			fmt.Printf("%s: %d\n", k, n[k])
		}
		c28ThePool.shutdown()
		os.Exit(2)
	}
	run := func(t c28Case) *vc.Fail {
		rep := c28ThePool.exec(t)
		return c28Judge(c, t, rep)
	}
	complete := vc.Run(c, gen, run)
	c.Extra["worker_processes_started"] = c28ThePool.spawn.Load()
	c28ThePool.shutdown()
	c.Finish(complete)
}

// c28KeyOf identifies the input completely.
func c28KeyOf(t c28Case) string {
	switch t.Part {
	case "opts", "params":
		return t.Part + "|" + c28Describe(t)
	case "prog":
		return fmt.Sprintf("prog|%s|env%d|%s", t.Variant, t.Mode, t.Src)
	}
	if t.Part == "arith" && t.Variant != "" && t.Variant != "bash" {
		return fmt.Sprintf("%s|%s|stdin%d|%s", t.Part, t.Variant, t.Stdin, t.Src)
	}
	if t.Inter {
		return fmt.Sprintf("%s|interactive|stdin%d|%s", t.Part, t.Stdin, t.Src)
	}
	return fmt.Sprintf("%s|stdin%d|%s", t.Part, t.Stdin, t.Src)
}

func c28Indices(n int) []int {
	out := make([]int, n)
	for i := range out {
		out[i] = i
	}
	return out
}

func c28Describe(t c28Case) string {
	switch t.Part {
	case "opts":
		return c28OptNames(t.Opts)
	case "params":
		how := [...]string{"New(Params(%s))", "New(StdIO(nil,out,err), Params(%s))", "Params(%s)(runner)"}[t.How]
		return fmt.Sprintf(how, strings.Join(c28Quote(t.Args), ","))
	case "prog":
		return fmt.Sprintf("%s [%s, env %d]", shortSrc(t.Src), t.Variant, t.Mode)
	}
	switch {
	case t.Part == "arith":
		// the common prelude is not repeated in the description
		src := strings.TrimPrefix(t.Src, c28ArithVars)
		return shortSrc(strings.TrimLeft(src, ";\n ")) + " [after the operand prelude, " + t.Variant + "]"
	case t.Inter:
		return shortSrc(t.Src) + " [Interactive(true)]"
	}
	return shortSrc(t.Src)
}

// development aid: VERIF_C28_LOG=1 lists the cases that were not judged or cut
var c28Log = os.Getenv("VERIF_C28_LOG") != ""

func c28Judge(c *vc.Ctx, t c28Case, rep c28Reply) *vc.Fail {
	c.Count("runs_"+t.Part, 1)
	switch {
	case rep.Hang:
		c.Count("skipped_worker_hung_killed", 1)
		fmt.Fprintf(os.Stderr, "C28: worker did not answer and was killed: %s\n", c28KeyOf(t))
		return nil
	case rep.ParseErr:
		c.Count("skipped_noparse", 1)
		if c28Log {
			fmt.Fprintf(os.Stderr, "C28LOG noparse %q\n", c28KeyOf(t))
		}
		return nil
	}
	if c28Log && (rep.StepsHit || rep.Deadline) {
		fmt.Fprintf(os.Stderr, "C28LOG steps=%v deadline=%v %q\n", rep.StepsHit, rep.Deadline, c28KeyOf(t))
	}
	if rep.StepsHit {
		c.Count("steps_hit", 1)
	}
	if rep.Deadline {
		c.Count("deadline_hit", 1)
	}
	if rep.Linger {
		c.Count("worker_retired_lingering_goroutines", 1)
	}
	if rep.NewErr != "" {
		c.Count("new_returned_error", 1)
	}
	msg := rep.Panic
	how := "panic recovered around Run"
	if rep.Crash != "" {
		msg = rep.Crash
		how = "worker process crashed (panic in a goroutine of the interpreter)"
	}
	if msg == "" {
		c.Distinct(t.Part + rep.Outcome)
		if rep.Outcome != "" {
			c.Sample(map[string]any{"case": c28Describe(t), "status": rep.Status})
		}
		return nil
	}
	desc := c28Describe(t)
	f := &vc.Fail{
		Key:    c28KeyOf(t) + "|" + msg + "|" + rep.Frame,
		Msg:    fmt.Sprintf("%s: %s: %s (in %s)", desc, how, msg, rep.Frame),
		Detail: rep.Stack,
	}
	f.Class = c28Class(t, msg, rep.Frame)
	return f
}

// c28Class assigns a failure to a narrow family: the panic site (function of
// mvdan/sh + kind of runtime error) together with a syntactic predicate on the
// input. Anything else stays unclassified.
func c28Class(t c28Case, msg, frame string) string {
	for _, cl := range c28Classes {
		if cl.match(t, msg, frame) {
			return cl.name
		}
	}
	return ""
}

type c28ClassDef struct {
	name  string
	match func(t c28Case, msg, frame string) bool
}

var c28Classes []c28ClassDef

func c28SortedKeys(m map[string]int) []string {
	var ks []string
	for k := range m {
		ks = append(ks, k)
	}
	sort.Strings(ks)
	return ks
}
