package checks

import (
	"context"
	"fmt"
)

// C30DebugState prints the canonical state dump after a history (development aid).
func C30DebugState(cfg int, hist []int) {
	s := c30GetScratch()
	pol := c30ParseOps(c30Polluters)
	x := s.newRunner(c30Cfgs[cfg], "")
	var steps int64
	for _, p := range hist {
		x.apply(context.Background(), pol[p], &steps)
		fmt.Printf("%s: out=%q err=%q\n", pol[p].op.Name, x.out.take(), x.err.take())
	}
	fmt.Println(s.norm(c30DumpRunner(x.r)))
	c30Cleanup()
}
