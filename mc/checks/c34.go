package checks

import (
	"fmt"
	"sort"
	"strings"

	"mvdan.cc/sh/v3/expand"

	"verif/mc/enum"
	"verif/mc/vc"
)

func init() { Registry["C34"] = c34 }

// C34: ListEnviron behaves like an ordered map built left to right;
// FuncEnviron treats empty as unset.
func c34(c *vc.Ctx) {
	alphabet := []string{"a=1", "a=2", "ab=3", "a-b=4", "a.b=5", "b=", "=x", "a", "A=6", "a=b=c", "", "a>=7", "a=", "B=8", "a1=9"}
	probes := []string{"a", "ab", "a-b", "a.b", "b", "A", "", "c", "a>", "B", "a1", "a\x00"}
	maxLen := vc.Pick(c, 4, 5)
	c.Rule = fmt.Sprintf("all lists of <=%d pairs over %q, every list of length 13 (thorough: and 14) over the names a/ab/b with the position as value, and 612 structured long lists (12..300 pairs, 1..13 distinct names, 6 orders); Get probed with %q, Each compared with a Go map model (last wins, invalid dropped, sorted, unique); distinct = distinct (surviving map) contents", maxLen, alphabet, probes)
	type cs struct {
		Pairs []string `json:"pairs"`
	}
	complete := vc.Run(c, func(emit func(cs)) {
		enum.Seqs(alphabet, maxLen, func(s []string) {
			emit(cs{append([]string(nil), s...)})
		})
		// Long lists: sorting algorithms switch strategy with the length (Go's
		// pdqsort uses insertion sort up to 12 elements), and "last value wins"
		// depends on the sort keeping equal names in order. Every list of
		// length 13 (thorough: 13 and 14) over three colliding names, the
		// value being the position, so every duplicate is distinguishable.
		names := []string{"a", "ab", "b"}
		for _, n := range vc.Pick(c, []int{13}, []int{13, 14}) {
			idx := make([]int, n)
			for {
				pairs := make([]string, n)
				for i, k := range idx {
					pairs[i] = fmt.Sprintf("%s=%d", names[k], i)
				}
				emit(cs{pairs})
				i := n - 1
				for i >= 0 && idx[i] == len(names)-1 {
					idx[i] = 0
					i--
				}
				if i < 0 {
					break
				}
				idx[i]++
			}
		}
		// Structured long lists: k distinct names repeated in several orders,
		// for lengths around every threshold up to 300.
		for _, n := range []int{12, 13, 16, 17, 20, 32, 33, 49, 50, 51, 64, 65, 100, 128, 129, 257, 300} {
			for _, k := range []int{1, 2, 3, 5, 8, 13} {
				for order := 0; order < 6; order++ {
					pairs := make([]string, n)
					for i := range pairs {
						var j int
						switch order {
						case 0:
							j = i % k // ascending cycle
						case 1:
							j = k - 1 - i%k // descending cycle
						case 2:
							j = i * k / n // blocks
						case 3:
							j = (i * 7) % k // stride
						case 4:
							j = (i / 2) % k // pairs
						case 5:
							j = (n - 1 - i) * k / n // descending blocks
						}
						pairs[i] = fmt.Sprintf("v%02d=%d", j, i)
					}
					emit(cs{pairs})
				}
			}
		}
	}, func(t cs) *vc.Fail {
		model := map[string]string{}
		for _, p := range t.Pairs {
			name, val, ok := strings.Cut(p, "=")
			if !ok || name == "" {
				continue
			}
			model[name] = val
		}
		env := expand.ListEnviron(t.Pairs...)
		key := fmt.Sprintf("%q", t.Pairs)
		allProbes := probes
		if len(t.Pairs) > maxLen {
			allProbes = nil
			for n := range model {
				allProbes = append(allProbes, n)
			}
			sort.Strings(allProbes)
			allProbes = append(allProbes, "zz", "v", "a=")
		}
		for _, n := range allProbes {
			vr := env.Get(n)
			want, ok := model[n]
			if vr.IsSet() != ok || (ok && (vr.Str != want || vr.Kind != expand.String || !vr.Exported)) {
				return vc.Failf(key+" Get "+n, "ListEnviron(%q).Get(%q) = set:%v %q, model set:%v %q", t.Pairs, n, vr.IsSet(), vr.Str, ok, want)
			}
		}
		var names []string
		var got []string
		env.Each(func(name string, vr expand.Variable) bool {
			names = append(names, name)
			got = append(got, name+"="+vr.Str)
			return true
		})
		var want []string
		for n, v := range model {
			want = append(want, n+"="+v)
		}
		sort.Slice(want, func(i, j int) bool {
			return strings.Compare(strings.SplitN(want[i], "=", 2)[0], strings.SplitN(want[j], "=", 2)[0]) < 0
		})
		if !sort.StringsAreSorted(names) {
			return vc.Failf(key+" order", "ListEnviron(%q).Each names not sorted: %q", t.Pairs, names)
		}
		if strings.Join(got, "\x00") != strings.Join(want, "\x00") {
			return vc.Failf(key+" each", "ListEnviron(%q).Each = %q, model %q", t.Pairs, got, want)
		}
		// Each must stop when told to.
		for stopAt := 0; stopAt < len(want); stopAt++ {
			n := 0
			env.Each(func(string, expand.Variable) bool { n++; return n <= stopAt })
			if n != stopAt+1 {
				return vc.Failf(key+" stop", "ListEnviron(%q).Each ignored a false return at %d", t.Pairs, stopAt)
			}
		}
		c.Distinct(strings.Join(want, "\x00"))
		if len(t.Pairs) == maxLen {
			c.Sample(map[string]any{"pairs": t.Pairs, "each": got})
		}
		return nil
	})
	// FuncEnviron: empty means unset, everything else is an exported string.
	for _, v := range []string{"", "x", " ", "a=b", "\x00"} {
		c.Eval(1)
		fe := expand.FuncEnviron(func(name string) string {
			if name == "k" {
				return v
			}
			return ""
		})
		vr := fe.Get("k")
		if vr.IsSet() != (v != "") || vr.Str != v || (v != "" && (!vr.Exported || vr.Kind != expand.String)) || fe.Get("other").IsSet() {
			f := vc.Failf("FuncEnviron "+v, "FuncEnviron value %q: got set=%v %q", v, vr.IsSet(), vr.Str)
			c.Report(f, v, nil)
		}
	}
	c.Finish(complete)
}
