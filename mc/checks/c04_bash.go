package checks

import (
	"fmt"
	"strconv"
	"strings"
	"sync"

	"verif/mc/oracle"
)

// c04Res is what bash produced for one program text.
type c04Res struct {
	Out    string
	Status int
}

func (r c04Res) String() string { return fmt.Sprintf("status=%d stdout=%q", r.Status, r.Out) }

// c04BashCache memoises bash results by program text: a simplified program is
// very often the text of another enumerated program. bash is deterministic
// for the texts of this check (no $$, no time, no randomness, every
// background job is waited for).
var c04BashCache sync.Map // string -> c04Res

const c04Sep = "\x01"

// c04Reset undoes what a program of this check can leave behind in the shell
// that evaluates the next one (everything else is set again by the prelude
// each program starts with). fork costs 100+ ms on the loaded machine, so the
// programs are evaluated in ONE shell without a subshell each.
const c04Reset = `unset -v u l v k q d h b c arr m st 2>/dev/null; unset -f f cat ret 2>/dev/null; unalias -a; IFS=$' \t\n'`

// c04Bash evaluates every text with `eval` in the main shell of one bash
// process (stderr discarded, stdin empty), c04Reset in between. A text that
// terminates the shell is re-run alone inside a subshell and the batch
// continues after it. The separator is a top-level command of its own: an
// expansion error makes bash discard the rest of the current top-level
// command. The texts must not print byte 0x01.
func c04Bash(texts []string, dir string) (map[string]c04Res, error) {
	res := map[string]c04Res{}
	var todo []string
	seen := map[string]bool{}
	for _, t := range texts {
		if seen[t] {
			continue
		}
		seen[t] = true
		if v, ok := c04BashCache.Load(t); ok {
			res[t] = v.(c04Res)
			continue
		}
		todo = append(todo, t)
	}
	isolated := false // run the first text of todo in a subshell
	for len(todo) > 0 {
		var sb strings.Builder
		n := len(todo)
		if isolated {
			n = 1
			fmt.Fprintf(&sb, "( eval %s ) 2>/dev/null </dev/null\nprintf '\\001%%d\\001\\n' $?\n", oracle.ShQuote(todo[0]))
		} else {
			for _, t := range todo {
				fmt.Fprintf(&sb, "%s\neval %s 2>/dev/null </dev/null\nprintf '\\001%%d\\001\\n' $?\n", c04Reset, oracle.ShQuote(t))
			}
		}
		out, _, err := oracle.ShellFile("bash", sb.String(), dir)
		if err != nil {
			return nil, err
		}
		rest := string(out)
		done := 0
		for _, t := range todo[:n] {
			i := strings.Index(rest, c04Sep)
			if i < 0 {
				break
			}
			j := strings.Index(rest[i+1:], c04Sep)
			if j < 0 {
				break
			}
			st, err := strconv.Atoi(rest[i+1 : i+1+j])
			if err != nil {
				return nil, fmt.Errorf("bash batch: bad status %q", rest[i+1:i+1+j])
			}
			r := c04Res{Out: rest[:i], Status: st}
			rest = strings.TrimPrefix(rest[i+1+j+1:], "\n")
			res[t] = r
			c04BashCache.Store(t, r)
			done++
		}
		if done == n {
			if strings.TrimSpace(rest) != "" {
				return nil, fmt.Errorf("bash batch: trailing output %q", rest)
			}
			todo = todo[n:]
			isolated = false
			continue
		}
		if isolated {
			return nil, fmt.Errorf("bash: isolated run of %q produced no result", todo[0])
		}
		// the shell died while evaluating todo[done]
		todo = todo[done:]
		isolated = true
	}
	return res, nil
}
