package checks

import (
	"fmt"
	"strconv"
	"strings"
	"sync"

	"verif/mc/oracle"
)

// c04Res is what bash produced for one program text.
type c04Res struct {
	Out    string
	Status int
}

func (r c04Res) String() string { return fmt.Sprintf("status=%d stdout=%q", r.Status, r.Out) }

// c04BashCache memoises bash results by program text: a simplified program is
// very often the text of another enumerated program. bash is deterministic
// for the texts of this check (no $$, no time, no randomness).
var c04BashCache sync.Map // string -> c04Res

const c04Sep = "\x01"

// c04Bash runs every text in its own subshell of ONE bash process, with
// `eval` so that a text bash cannot parse only fails itself, stderr discarded
// and stdin empty. The texts must not print byte 0x01.
func c04Bash(texts []string, dir string) (map[string]c04Res, error) {
	res := map[string]c04Res{}
	var todo []string
	seen := map[string]bool{}
	for _, t := range texts {
		if seen[t] {
			continue
		}
		seen[t] = true
		if v, ok := c04BashCache.Load(t); ok {
			res[t] = v.(c04Res)
			continue
		}
		todo = append(todo, t)
	}
	if len(todo) == 0 {
		return res, nil
	}
	var sb strings.Builder
	for _, t := range todo {
		fmt.Fprintf(&sb, "( eval %s ) 2>/dev/null </dev/null; printf '\\001%%d\\001\\n' $?\n", oracle.ShQuote(t))
	}
	out, _, err := oracle.ShellFile("bash", sb.String(), dir)
	if err != nil {
		return nil, err
	}
	rest := string(out)
	for _, t := range todo {
		i := strings.Index(rest, c04Sep)
		if i < 0 {
			return nil, fmt.Errorf("bash batch output truncated (%d texts)", len(todo))
		}
		j := strings.Index(rest[i+1:], c04Sep)
		if j < 0 {
			return nil, fmt.Errorf("bash batch output truncated")
		}
		st, err := strconv.Atoi(rest[i+1 : i+1+j])
		if err != nil {
			return nil, fmt.Errorf("bash batch: bad status %q", rest[i+1:i+1+j])
		}
		r := c04Res{Out: rest[:i], Status: st}
		rest = rest[i+1+j+1:]
		rest = strings.TrimPrefix(rest, "\n")
		res[t] = r
		c04BashCache.Store(t, r)
	}
	if strings.TrimSpace(rest) != "" {
		return nil, fmt.Errorf("bash batch: trailing output %q", rest)
	}
	return res, nil
}
