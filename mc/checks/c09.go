package checks

import (
	"fmt"
	"sort"
	"strings"

	"verif/mc/synt"
	"verif/mc/vc"
)

func init() { Registry["C09"] = c09 }

// c09Extras are hand-written programs for the constructs named in the
// property's quantifier that the shared grammar covers thinly: here-documents
// in every position, nested backquotes, multi-byte runes, CRLF and NUL bytes.
var c09Extras = []string{
	// here-documents
	"cat <<EOF\nfoo\nEOF\n", "cat <<EOF\nfoo\nEOF", "cat <<EOF\nEOF\n", "cat <<EOF\n\nEOF\n", "cat <<EOF", "cat <<EOF\n",
	"cat <<-EOF\n\tfoo\n\t\tbar\n\tEOF\n", "cat <<-EOF\n\t\n\tEOF\n", "cat <<-EOF\nfoo\n\t$x\nEOF\n", "cat <<-'EOF'\n\tfoo\\\n\tbar\n\tEOF\n", "cat <<-EOF\n\tfoo\\\n\tbar\n\tEOF\n",
	"cat <<'EOF'\nfoo $x `y`\nEOF\n", "cat <<\"EOF\"\nfoo\nEOF\n", "cat <<\\EOF\nfoo\nEOF\n", "cat <<E\"O\"F\n$x\nEOF\n",
	"cat <<EOF\n$x ${y} $(z) `w` $((1+2))\nEOF\n", "cat <<EOF\na\\\nb\nEOF\n", "cat <<EOF\n\\$x \\` \\\\\nEOF\n", "cat <<EOF\n\"q\" 'r'\nEOF\n",
	"cat <<A <<B\n1\nA\n2\nB\n", "cat <<A; echo b\nfoo\nA\n", "cat <<A && cat <<B\n1\nA\n2\nB\n", "cat <<A | cat <<-B\n1\nA\n\t2\n\tB\n", "cat <<A >f\nbody\nA\n", "cat <<A >f 2>&1\nbody\nA\necho after\n",
	"cat <<A &\nbody\nA\necho b\n", "{ cat <<A; }\nbody\nA\n", "( cat <<A )\nbody\nA\n", "( cat <<A\nbody\nA\n)\n", "if cat <<A; then b; fi\nbody\nA\n", "while cat <<A; do b; done\nbody\nA\n",
	"f() { cat <<A; }\nbody\nA\n", "case x in a) cat <<A;; esac\nbody\nA\n", "for i in 1; do cat <<A; done\nbody\nA\n",
	"echo $(cat <<A\nbody\nA\n)\n", "echo $(cat <<A\nbody\nA\n) b\n", "echo \"$(cat <<A\nbody $x\nA\n)\"\n", "echo `cat <<A\nbody\nA\n`\n", "echo `cat <<A\n\\$x \\\\ \\`y\\`\nA\n`\n", "echo `cat <<-A\n\tbody\n\tA\n`\n",
	"a <<A b\nbody\nA\n", "<<A cat\nbody\nA\n", "! cat <<A\nbody\nA\n", "cat <<A # c\nbody\nA\n# d\n", "cat 3<<A 4<<B\n1\nA\n2\nB\n", "cat <<A\n$(cat <<B\nin\nB\n)\nA\n", "cat <<A\n`b`\nA\n",
	"cat <<EOF\nfoo\r\nEOF\r\n", "cat <<EOF\r\nfoo\r\nEOF\r\n", "cat <<-EOF\r\n\tfoo\r\n\tEOF\r\n", "cat <<EOF\nf\x00oo\nEOF\n", "cat <<EOF\nfoo\nE\x00OF\n", "cat <<é\nfoo日\né\n", "cat <<<w <<A\nbody\nA\n",
	"cat <<EOF\nfoo\nEOF\nb\n", "cat <<EOF\nfoo\n EOF\nEOF\n", "cat <<EOF\n$x\\\nEOF\n", "cat << EOF\nfoo\nEOF\n", "cat <<EOF  \nfoo\nEOF\n", "cat <<''\nfoo\n\n", "cat <<-E\n\tx\n\t\tE\n", "a <<E b <<-F c\n1\nE\n\t2\nF\nd\n",
	// backquotes and nesting
	"`a`", "`a b`; c", "echo `echo \\`echo c\\``", "echo `echo \\`echo \\\\\\`echo d\\\\\\`\\``", "echo \"`echo \\\"a\\\"`\"", "echo \"`echo \\`echo \\\\\"c\\\\\"\\``\"", "echo `echo \\$x \\\\$y`",
	"echo `echo \"\\`echo c\\`\"`", "echo `a \\\\ b`", "echo `a\\\nb`", "echo `a;\nb`", "echo `a 'b\\`c'`", "echo `\\`\\``", "``", "` `", "`\n`", "echo `a` `b`", "echo `a`b`c`", "echo `if a; then b; fi`",
	"echo `(a)` `{ b; }`", "echo `a | b && c`", "echo `echo $(echo \\`c\\`)`", "echo $(echo `echo $(d)`)", "echo `a <<<b`", "echo `a >f`", "x=`a`", "x=\"`a`\"", "echo `# c\n`", "echo `a # c\n`", "echo `a \\# c`",
	"echo `echo \\`echo c\\` d` e", "echo `case x in a) \\`b\\`;; esac`", "echo `echo '\\$' \"\\$x\" \\\"`", "echo `echo \\\\\\\\`", "echo `echo \\a \\' `", "`a`\n`b`\n", "echo \"a `b \"c\"` d\"", "echo ${x:-`a`}", "echo $((`a`+1))", "[[ `a` == b ]]",
	"echo `echo \\`x=1; echo \\\\$x\\``", "echo \"`echo \\`echo \\\\\\\"q\\\\\\\"\\``\"", "echo `$'a\\`b'`",
	// multi-byte runes
	"é", "echo é 日本 😀", "echo 'é' \"日\" $'😀'", "é=1", "echo ${x#é}", "echo ${x/日/本}", "echo é; echo b", "echo é # 日\necho b", "# é\necho 日\n", "echo $((1+2)) é", "[[ é == 日 ]]", "case é in 日) 本;; esac", "é() { 日; }", "echo \"é$x日\"", "echo `é`", "echo é\\\n日", "if é; then 日; fi", "echo é>日", "é && 日 || 本", "(é)", "{ é; }", "a=(é 日)", "echo $(é)日",
	// CRLF
	"a\r\n", "a\r\nb\r\n", "a \\\r\nb\r\n", "if a\r\nthen b\r\nfi\r\n", "echo 'a\r\nb'\r\n", "echo \"a\r\nb\"\r\n", "a\rb\r\n", "a\r", "\r\n", "\r\na\r\n", "# c\r\na\r\n", "a # c\r\nb\r\n", "a &&\r\nb\r\n", "a |\r\nb\r\n", "{\r\na\r\n}\r\n", "(\r\na\r\n)\r\n", "case x in\r\na)\r\nb;;\r\nesac\r\n", "while a\r\ndo b\r\ndone\r\n", "for i in 1 2\r\ndo b\r\ndone\r\n", "f()\r\n{\r\na\r\n}\r\n", "echo $(a\r\nb)\r\n", "echo `a\r\nb`\r\n", "a=(1\r\n2)\r\n", "[[ a &&\r\nb ]]\r\n", "echo $((1+\r\n2))\r\n", "echo a\\\r\nb\r\n", "echo \"a\\\r\nb\"\r\n", "a\r\r\nb", "a;\r\nb", "a\r\n\r\nb",
	// NUL bytes
	"a\x00b", "\x00a", "a\x00", "a \x00b", "\x00", "i\x00f a; then b; fi", "if a; th\x00en b; fi", "echo 'a\x00b'", "echo \"a\x00b\"", "echo $\x00x", "echo ${x\x00}", "echo $(\x00a)", "echo `a\x00`", "a &\x00& b", "a |\x00| b", "a >\x00> f", "# c\x00d\na", "a # \x00\nb", "a\x00\nb", "a\n\x00b", "a\\\x00\nb", "a\r\x00\nb", "echo $((1\x00+2))", "[[ a =\x00= b ]]", "a=\x00b", "a\x00=b", "case x in a) b;\x00; esac", "e\x00sac", "case x in a) b;; es\x00ac",
	// escaped newlines inside tokens
	"i\\\nf a; then b; fi", "if a; the\\\nn b; fi", "if a; then b; f\\\ni", "a &\\\n& b", "a |\\\n| b", "a >\\\n> f", "a <\\\n< E\nb\nE\n", "echo $\\\nx", "echo $\\\n{x}", "echo ${\\\nx}", "echo ${x\\\n}", "echo ${x:\\\n-d}", "echo $\\\n(a)", "echo $(\\\na)", "echo $(a\\\n)", "echo $(\\\n(1))", "echo $((\\\n1))", "echo $((1)\\\n)", "echo $((1+\\\n+2))", "echo $((x+\\\n=2))",
	"(\\\n(1))", "((1)\\\n)", "[\\\n[ a ]]", "[[ a ]\\\n]", "[[ a =\\\n= b ]]", "[[ a &\\\n& b ]]", "[[ -\\\nn a ]]", "case x in a) b;\\\n; esac", "case x in a) b;;\\\n& c) d;; esac", "case x in a) b;\\\n& c) d;; esac", "echo \"\\\na\"", "echo \"a\\\n\"", "echo '\\\na'", "echo 'a\\\n'", "echo \\\n'a'", "echo 'a'\\\n", "echo \"a\"\\\n\"b\"", "echo $'\\\na'", "echo $\\\n'a'", "echo $\\\n\"a\"",
	"a\\\n=1", "a=\\\n1", "a=(\\\n1)", "a+\\\n=1", "a[1]\\\n=2", "a[\\\n1]=2", "f(\\\n) { a; }", "f()\\\n{ a; }", "function\\\n f { a; }", "fo\\\nr i in 1; do a; done", "for i i\\\nn 1; do a; done", "for i in 1; d\\\no a; done", "for i in 1; do a; don\\\ne", "for (\\\n(;;)); do a; done", "for ((;;)\\\n); do a; done", "whil\\\ne a; do b; done", "unti\\\nl a; do b; done", "cas\\\ne x in a) b;; esac", "case x i\\\nn a) b;; esac", "case x in a) b;; esa\\\nc",
	"tim\\\ne a", "copro\\\nc a", "le\\\nt i++", "decl\\\nare x=1", "selec\\\nt i in 1; do a; done", "@tes\\\nt 'd' { a; }", "!\\\n a", "a &\\\n", "a;\\\n b", "a |\\\n& b", "a &\\\n> f", "a 2\\\n>f", "a 2>\\\n&1", "{\\\n a; }", "{ a; \\\n}", "{ a; }\\\n", "(\\\na)", "(a\\\n)", "echo <\\\n(a)", "echo <(a\\\n)", "echo @\\\n(a)", "echo @(a\\\n)", "echo @(a)\\\n",
	"echo `\\\na`", "echo `a\\\n`", "echo \\\n`a`", "echo `a`\\\n", "# c\\\na", "a # c\\\nb", "echo ${x/\\\na/b}", "echo ${x/a\\\n/b}", "echo ${x/a/\\\nb}", "echo ${x[\\\n1]}", "echo ${x[1\\\n]}", "echo ${#\\\nx}", "echo ${!\\\nx}", "echo ${x:\\\n1:2}", "echo ${x:1\\\n:2}", "echo ${x:1:\\\n2}", "echo $\\\n[1]", "echo $[1\\\n]", "echo $x\\\n", "echo $x\\\ny", "echo $1\\\n2", "echo $\\\n1",
}

// c09Inserts are the single-site insertion mutations applied to the base
// programs (at every byte offset, including inside tokens).
var c09Inserts = []struct {
	name string
	text string
}{
	{"nul", "\x00"},
	{"escnl", "\\\n"},
	{"esccrlf", "\\\r\n"},
	{"rune2", "é"},
	{"rune3", "日"},
	{"rune4", "😀"},
	{"nl", "\n"},
	{"crlf", "\r\n"},
	{"cr", "\r"},
	{"tab", "\t"},
	{"bs", "\\"},
	{"bq", "`"},
	{"hash", "#"},
}

// c09Mutants emits every single-site mutation of src.
func c09Mutants(src string, inserts int, emit func(string)) {
	seen := map[string]bool{src: true}
	out := func(s string) {
		if !seen[s] {
			seen[s] = true
			emit(s)
		}
	}
	for _, ins := range c09Inserts[:inserts] {
		for i := 0; i <= len(src); i++ {
			out(src[:i] + ins.text + src[i:])
		}
	}
	// newline -> CRLF: each one alone, and all of them
	if strings.Contains(src, "\n") {
		for i := 0; i < len(src); i++ {
			if src[i] == '\n' && (i == 0 || src[i-1] != '\r') {
				out(src[:i] + "\r" + src[i:])
			}
		}
		out(strings.ReplaceAll(strings.ReplaceAll(src, "\r\n", "\n"), "\n", "\r\n"))
	}
	// every ASCII letter replaced by a 2-byte rune, one at a time
	for i := 0; i < len(src); i++ {
		if b := src[i]; b >= 'a' && b <= 'z' || b >= 'A' && b <= 'Z' {
			out(src[:i] + "é" + src[i+1:])
		}
	}
}

// c09BqWrap writes src as the body of a backquote command substitution, one
// level deeper, using the shell's escaping rule for backquotes.
func c09BqWrap(src string) string {
	r := strings.NewReplacer("\\", "\\\\", "`", "\\`")
	return "`" + r.Replace(src) + "`"
}

func c09(c *vc.Ctx) {
	space := synSpace{Depth: vc.Pick(c, 1, 2), CoreOnly: true, LayoutDepth: 1, Corpus: true, AllVariantsDeep: true}
	nIns := vc.Pick(c, 4, len(c09Inserts))
	mutateLayout := false // would triple the thorough tier beyond its time budget
	mutateCorpus := !c.Quick()
	mutateDepth := vc.Pick(c, 0, 1)
	maxBase := vc.Pick(c, 60, 120)
	depth0 := map[string]bool{}
	synt.Sources(0, false, -1, func(x synt.Source) { depth0[x.Text] = true })
	c.Rule = space.describe() + fmt.Sprintf("; plus %d hand-written programs (here-documents in every statement position, nested backquotes, multi-byte runes, CRLF, NUL, escaped newlines inside tokens); plus, for every hand-written and depth-0 default-layout program (thorough: also every corpus and depth-1 program) of at most %d bytes, every single-site mutation: insertion of each of the first %d of %d strings %q at every byte offset, each LF (and all LFs) turned into CRLF, each ASCII letter replaced by a 2-byte rune; plus every depth<=1 program and hand-written program wrapped in one and in two levels of backquotes (with the shell's backslash escaping), bare, inside double quotes and as a command argument; every program in every variant in which it parses. Oracle per parsed file, over a reflective walk of every node (not syntax.Walk): Pos()<=End(); every stored and computed position has offset in [0,len(src)] and the line/column recomputed from the offset (lines split at LF, columns in bytes from 1, documented overflow to 0); every keyword/operator/quote position field reads the expected token in the source, End() of every node closed by its own token is right after that token, and every Lit/SglQuoted range spells exactly its Value, where the source is read through the lexer's documented dropping rules (NUL, CR before LF, backslash-newline, one backslash before $ ` \\ \" inside backquotes, leading tabs in <<- bodies: each droppable sequence may be dropped or kept); statements of every list start in increasing offset order; every node's [Pos,End) lies within its parent's. Degraded clauses: a Comment is only required to lie within the nearest ancestor with explicit delimiters (Node.Pos/End are documented to ignore comments); a here-document body is out of line by construction and is required to start after its delimiter word instead of lying within the Redirect's parent chain (see report). distinct = distinct parsed (variant, source) pairs",
		len(c09Extras), maxBase, nIns, len(c09Inserts), c09InsertNames())
	c.Assumptions = []string{
		"the token expected at each position field is the documented meaning of that field in syntax/nodes.go (a superset of the table in the repository's sanityChecker)",
		"the dropping rules are applied permissively (a droppable sequence may also be kept), so the check never demands a particular tokenisation, only that positions delimit text that can spell the token/value",
	}
	gen := func(emit func(synCase)) {
		seen := map[string]bool{}
		var bases []string
		one := func(src string, kind int) {
			for _, v := range synt.Variants {
				emit(synCase{src, v.Name, kind})
			}
		}
		genSyn(c, space, func(t synCase) {
			emit(t)
			if ((t.Kind == 1 && (mutateDepth >= 1 || depth0[t.Src])) || (t.Kind == 0 && mutateCorpus) || (t.Kind == 2 && mutateLayout)) && !seen[t.Src] {
				seen[t.Src] = true
				bases = append(bases, t.Src)
			}
		})
		for _, src := range c09Extras {
			if !seen[src] {
				seen[src] = true
				bases = append(bases, src)
				one(src, 4)
			}
		}
		// overflow of the documented line/column bit widths
		long := strings.Repeat("x", c09ColMax+10)
		for _, src := range []string{
			"echo " + long + " b; c",
			"echo \"" + long + "\" 'q' $x `a`; if a; then b; fi # c",
			"echo '" + long + "\nb' c",
			strings.Repeat("\n", c09LineMax+5) + "echo a 'b' \"c\"; if a; then b; fi\n",
		} {
			one(src, 6)
		}
		// backquote wrapping
		for _, src := range bases {
			if len(src) > 200 {
				continue
			}
			w1 := c09BqWrap(src)
			w2 := c09BqWrap("echo " + w1)
			for _, w := range []string{w1, w2, "echo " + w1 + " b", "echo \"" + w1 + "\"", "echo \"" + w2 + "\"", "x=" + w2} {
				if !seen[w] {
					seen[w] = true
					one(w, 7)
				}
			}
		}
		// single-site mutations
		for _, src := range bases {
			if c.Expired() {
				return
			}
			if len(src) > maxBase {
				c.Count("bases_too_long_for_mutation", 1)
				continue
			}
			c.Count("bases_mutated", 1)
			c09Mutants(src, nIns, func(s string) { one(s, 5) })
		}
	}
	complete := vc.Run(c, gen, func(t synCase) *vc.Fail { return c09One(c, t) })
	c.Finish(complete)
}

func c09InsertNames() []string {
	var out []string
	for _, i := range c09Inserts {
		out = append(out, i.text)
	}
	return out
}

func c09One(c *vc.Ctx, t synCase) *vc.Fail {
	ws := synt.GetWorkspace()
	defer synt.PutWorkspace(ws)
	lang := synt.LangByName(t.Variant)
	key := t.Variant + " " + fmt.Sprintf("%q", t.Src)
	f, err := ws.Parse(t.Src, lang)
	if err != nil {
		c.Count("pairs_not_parsing", 1)
		return nil // not in the property's domain
	}
	c.Count("pairs_parsing", 1)
	c.Distinct(key)
	k := &c09Checker{lang: t.Variant, src: t.Src, lc: newC09LineCol(t.Src)}
	if fl := guard(key, func() { k.file(f) }); fl != nil {
		ws.Drop()
		return fl
	}
	c.Count("nodes", k.nodes)
	c.Count("positions_checked", k.positions)
	c.Count("token_checks", k.tokens)
	c.Count("literal_checks", k.literals)
	c.Count("end_token_checks", k.endTokens)
	c.Count("stmt_lists_ordered", k.stmtLists)
	c.Count("containment_checks", k.contained)
	c.Count("token_found_after_dropped_bytes", k.skippedPrefix)
	c.Count("comments_checked_against_delimited_ancestor", k.commentExempt)
	c.Count("heredoc_bodies_checked_out_of_line", k.hdocExempt)
	c.Count("heredoc_final_literals_checked_with_terminator", k.hdocLastLits)
	c.Count("heredoc_final_literals_degraded_to_line_clause", k.degradedHdocLit)
	c.Count("containment_overflows_explained_by_heredoc_end", k.hdocEndExempt)
	if len(k.problems) == 0 {
		if t.Kind >= 4 {
			c.Sample(map[string]any{"src": shortSrc(t.Src), "variant": t.Variant, "nodes": k.nodes, "positions": k.positions})
		}
		return nil
	}
	for i := range k.problems {
		k.problems[i].Class = c09Class(k, k.problems[i])
	}
	// an unclassified problem wins; otherwise the first class in name order
	sort.SliceStable(k.problems, func(i, j int) bool {
		a, b := k.problems[i], k.problems[j]
		if (a.Class == "") != (b.Class == "") {
			return a.Class == ""
		}
		return a.Class < b.Class
	})
	p := k.problems[0]
	return &vc.Fail{
		Class:  p.Class,
		Key:    fmt.Sprintf("%s %s %s.%s", key, p.Clause, p.Node, p.Field),
		Msg:    fmt.Sprintf("[%s] %s: %s", t.Variant, shortSrc(t.Src), p.Msg),
		Detail: k.problems,
	}
}
