package checks

// C28 part 2: the space of builtin calls.

import (
	"fmt"
	"go/ast"
	"go/parser"
	"go/token"
	"regexp"
	"sort"
	"strconv"
	"strings"

	"mvdan.cc/sh/v3/interp"
)

// c28Common is the argument alphabet shared by all builtins.
var c28Common = []string{"", "-1", "0", "1", "2", "99999999999999999999", "-n", "-x", "--", "-", "a", "a[1]", "x=y", "ab:", "-p", "-a", "-v", "+x"}

// c28Specific are the extra symbols per builtin.
var c28Specific = map[string][]string{
	"read":      {"-r", "-s", "-d", "-ra"},
	"mapfile":   {"-t", "-d", "-td"},
	"readarray": {"-t", "-d"},
	"getopts":   {":a", "-ab", "-b"},
	"trap":      {"EXIT", "ERR", "-l", "echo t"},
	"set":       {"-e", "-o", "+o", "errexit", "nosuch", "-eu"},
	"shopt":     {"-s", "-u", "-o", "globstar", "nosuch", "errexit", "-q"},
	"unset":     {"-f", "x", "a[0]", "a[-1]", "a[x", "PWD", "f"},
	"type":      {"-t", "-P", "-f", "cd", "if", "f"},
	"command":   {"-V", "cd", "nosuch", "shift"},
	"builtin":   {"cd", "nosuch", "shift"},
	"wait":      {"g1", "g0", "g2", "%1", "-f"},
	"pushd":     {"+1", "-0", ".", "/", "d", "nosuch"},
	"popd":      {"+1", "-0"},
	"dirs":      {"-c", "-l"},
	"cd":        {".", "/", "d", "nosuch", "..", "-L"},
	"pwd":       {"-L", "-P", "-LP"},
	"test":      {"-f", "-z", "=", "-eq", "!", "(", ")", "-o", "-nt", "f", "=~", "<"},
	"[":         {"-f", "-z", "=", "-eq", "!", "(", ")", "-o", "-nt", "f", "=~", "<", "]"},
	"printf":    {"%d", "%s", "%5.3s", "%q", "%*d", "%c", `\x4`, "%(%Y)T", "%n", "%", "%-", "%b", `\`, "%x", "%e", "%u", "%.*s", "%99999999999999999999d"},
	"echo":      {"-e", "-E", "-ne", `\c`, `\x`, `\0777`, `\u12`, `\`},
	"declare":   {"-A", "-i", "-r", "-g", "-f", "-F", "a=(1 2)", "-ar", "r=x", "r=", "f"},
	"typeset":   {"-A", "-i", "-r", "-g", "-f", "a=(1 2)", "r=x", "r="},
	"local":     {"-A", "-i", "-r", "a=(1 2)", "r=x", "l"},
	"export":    {"-f", "a=(1 2)", "r=x", "-nx"},
	"readonly":  {"-f", "-A", "a=(1 2)", "r=x", "l"},
	"nameref":   {"r=x", "r=r", "r=", "a=a[1]"},
	"let":       {"x=1", "1/0", "x++", "a[1]=2", "1 +", "**", "x=(", "2**-1"},
	"exit":      {"256", "-0", "0x1"},
	"return":    {"256", "-0", "0x1"},
	"break":     {"-0", "0x1", " 1"},
	"continue":  {"-0", "0x1", " 1"},
	"shift":     {"-0", "+1", " 1"},
	"alias":     {"a=b", "a=(", "a= ", "a='"},
	"unalias":   {"-a"},
	"source":    {"f", "nosuch", "/dev/null", "d", "g"},
	".":         {"f", "nosuch", "/dev/null", "d", "g"},
	"eval":      {"echo x", "(", "a=1", "return", "shift -1"},
	"exec":      {"true", "nosuch", "-c"},
	"help":      {"cd", "-s", "nosuch"},
}

// c28TestAlpha is the operand alphabet of the longer test expressions.
var c28TestAlpha = []string{"-z", "-f", "=", "!", "(", ")", "-o", "a", "", "-eq"}

// c28DeclKeywords are parsed as declaration clauses; their arguments are
// generated both unquoted (static assignments) and quoted (expanded at run
// time).
var c28DeclKeywords = []string{"declare", "local", "export", "readonly", "typeset", "nameref", "let"}

// c28ReadsStdin lists the builtins run under every stdin mode.
var c28ReadsStdin = map[string]bool{"read": true, "mapfile": true, "readarray": true}

// c28BuiltinNames returns the string literals of interp.IsBuiltin's case list
// in the working tree plus the declaration keywords, sorted.
func c28BuiltinNames() ([]string, error) {
	fset := token.NewFileSet()
	af, err := parser.ParseFile(fset, "/repo/interp/builtin.go", nil, parser.SkipObjectResolution)
	if err != nil {
		return nil, err
	}
	seen := map[string]bool{}
	for _, d := range af.Decls {
		fd, ok := d.(*ast.FuncDecl)
		if !ok || fd.Name.Name != "IsBuiltin" {
			continue
		}
		ast.Inspect(fd, func(n ast.Node) bool {
			if bl, ok := n.(*ast.BasicLit); ok && bl.Kind == token.STRING {
				if s, err := strconv.Unquote(bl.Value); err == nil {
					seen[s] = true
				}
			}
			return true
		})
	}
	if len(seen) < 40 {
		return nil, fmt.Errorf("only %d builtin names found in interp.IsBuiltin", len(seen))
	}
	for s := range seen {
		if !interp.IsBuiltin(s) {
			return nil, fmt.Errorf("%q is in the source of IsBuiltin but IsBuiltin reports false", s)
		}
	}
	for _, k := range c28DeclKeywords {
		seen[k] = true
	}
	var out []string
	for s := range seen {
		out = append(out, s)
	}
	sort.Strings(out)
	return out, nil
}

var c28SafeRe = regexp.MustCompile(`^[A-Za-z0-9_+=:./%-]+$`)

// c28Q quotes an argument for the shell. mode 0: quoted when needed; mode 1:
// left alone whenever it forms a single word by itself (a[1], a=(1 2)); mode
// 2: always single-quoted.
func c28Q(s string, mode int) string {
	if mode != 2 && s != "" && c28SafeRe.MatchString(s) {
		return s
	}
	if mode == 1 && s != "" && !strings.ContainsAny(s, " \t\n'\"\\$`;&|<>*?~#!()") {
		return s
	}
	if mode == 1 && s == "a=(1 2)" {
		return s
	}
	return "'" + strings.ReplaceAll(s, "'", `'\''`) + "'"
}

func c28Call(name string, args []string, mode int) string {
	var sb strings.Builder
	sb.WriteString(name)
	for _, a := range args {
		sb.WriteByte(' ')
		sb.WriteString(c28Q(a, mode))
	}
	return sb.String()
}

// c28Epilogue observes the state a call left behind.
const c28Epilogue = `echo $? $# "$@" "$x" "${a[@]}" "${!a[@]}" ${#a[@]} $OPTIND $OPTARG $o $v $r $REPLY "${MAPFILE[@]}" $PWD $-; dirs; getopts ab: o; shift`

// c28Wrap puts the command text into one of the three setups.
func c28Wrap(setup int, body string) string {
	switch setup {
	case 0:
		return body + "\n" + c28Epilogue
	case 1:
		return "set -- p -ab q; x=s; a=(1 2 3)\n" + body + "\n" + c28Epilogue
	}
	return "f() { local l=1; for i in 1 2; do\n" + body + "\n" + c28Epilogue + "\ndone; }; declare -A a=([k]=v); f u -a w"
}

type c28Item struct {
	Code string
	Core bool
}

// c28Stateful is the menu of calls of the stateful builtins (and the
// assignments that feed them) used for pairs and triples of consecutive calls.
func c28Stateful(full bool) []c28Item {
	var out []c28Item
	add := func(core bool, codes ...string) {
		for _, c := range codes {
			out = append(out, c28Item{c, core})
		}
	}
	// getopts
	optstrs := []string{"ab:", ":a:"}
	gargs := []string{"", "-a", "-ab", "-b v", "-b", "x"}
	if full {
		optstrs = []string{"ab:", ":a:", "a", "''", ":"}
		gargs = []string{"", "-a", "-ab", "-b v", "-b", "x", "-a -b", "--", "-", "-é", "-ba", "-abv -a", "''"}
	}
	for _, o := range optstrs {
		for _, g := range gargs {
			core := (o == "ab:") && (g == "" || g == "-a" || g == "-ab" || g == "-b")
			add(core, strings.TrimSpace("getopts "+o+" o "+g))
		}
	}
	add(false, "getopts", "getopts a", "getopts a 1x -a")
	add(true, "shift", "shift 2", "shift -1", "shift 99")
	add(false, "shift 0", "shift 1", "shift a", "shift 1 2")
	add(true, "set --", "set -- a", "set -- -ab -b", "set -e")
	add(false, "set -- -a -b v x", "set +e", "set -u", "set -o", "set -o nosuch", "set -", "set -- ''", "set -f", "set -x", "set -n")
	add(true, "OPTIND=0", "OPTIND=3", "OPTIND=-1", "unset OPTIND")
	add(false, "OPTIND=1", "OPTIND=2", "OPTIND=x", "OPTIND=99999999999999999999", "OPTIND=", "local OPTIND", "declare -a OPTIND=(2 3)", "readonly OPTIND")
	add(true, "pushd", "pushd d", "pushd -n .", "popd", "popd -n", "cd -", "cd d", "unset PWD")
	add(false, "pushd .", "pushd /", "pushd -n", "pushd nosuch", "pushd -n nosuch", "pushd -n ''", "popd x", "dirs", "cd .", "cd /", "cd nosuch", "cd", "cd ..", "unset OLDPWD", "PWD=x", "HOME=", "unset HOME")
	add(true, "trap 'echo t' EXIT", "trap - EXIT", "trap 'exit 3' ERR", "trap 'shift 5' EXIT", "false")
	add(false, "trap", "trap EXIT", "trap x BAD", "trap -p", "trap 'return 2' ERR", "trap '(' EXIT", "trap 'trap - ERR; false' ERR", "trap '' ERR", "trap -- 'break' EXIT ERR")
	add(true, "read v", "read -a a")
	add(false, "read", "read -r v w", "read -p", "read -p q v", "read 1x", "read -ra x", "read x", "IFS= read v", "read -s v", "read OPTIND", "read -a OPTIND")
	add(true, "mapfile a", "mapfile -t x")
	add(false, "mapfile", "mapfile -d '' a", "mapfile -d", "readarray -t a", "mapfile 1x", "mapfile a b")
	add(true, "local v=1", "local -a a", "declare -A a", "declare -n r=a", "a=(1 2)", "a[5]=1", "x=1", "declare -a x=([3]=c [1]=a)")
	add(false, "local v", "declare -a a", "declare -A x", "declare -n r=r", "declare -n r=", "declare -r v", "a[-1]=z", "a+=(q)", "a+=s", "declare -i v", "declare -p a", "declare -p", "declare -f f",
		"declare -x a", "export a", "readonly a", "declare -g v=2", "declare -n a=x", "local -", "declare -A a=([k]=v)", "x=(1 2 3)",
		`echo ${a[@]} ${!a[@]} ${#a[@]} ${x[1]} ${a[@]:1:2} ${x[@]: -1}`, `echo ${a[-1]}`, `echo ${r} ${!r} ${r[0]}`, "r=5", "r+=(1)")
	add(true, "unset a", "unset 'a[0]'", "unset 'a[-1]'", "unset x", "unset 'x[1]'", "unset r")
	add(false, "unset v", "unset 'a[9]'", "unset 'a[k]'", "unset -f f", "unset -v a", "unset -n r", "unset IFS", "unset 'a['", "unset 'a[]'", "unset 1x")
	add(true, ": &", "wait", "wait g1")
	add(false, "wait g0", "wait g99", "wait x", "wait -n", "false &", "exit 3 &", "wait g1 g2", "wait %1")
	add(true, "return", "return 2", "break", "break 2", "continue", "continue 2")
	add(false, "return 0", "return -1", "return a", "return 1 2", "break 0", "break -1", "break a", "continue 0", "continue -1", "continue 99999999999999999999", "exit", "exit 3", "exit -1", "exit a")
	add(false, "g() { shift; }; g", "g", "g() { local a=1; unset a; echo $a; }; g", "unset -f g", "g() { return 5; }", "g() { break; }; g")
	add(false, "alias a='shift 3'", "unalias a", "a", "alias")
	// the three-step history enable / define (boundary values) / inspect or use
	add(true, "shopt -s expand_aliases", "alias e= b=' ' a='a '", "type e b a")
	add(false, "command -V e b", "e", "b e a", "unalias e", "shopt -u expand_aliases")
	add(false, "source f", "source f 1 2", ". nosuch", "eval 'shift 2'", "eval return", "eval 'set -- q'")
	return out
}
