package checks

import (
	"fmt"
	"os"
	"runtime/debug"
	"strings"
	"unicode/utf8"

	"mvdan.cc/sh/v3/syntax"

	"verif/mc/enum"
	"verif/mc/synt"
	"verif/mc/vc"
)

type c07Bounds struct {
	AllChunk  int // inputs up to this length: all 2^(n-1) chunkings
	TwoSplit  int // inputs up to this length: all schedules with <=2 split points
	ZeroAll   int // inputs up to this length: every chunking x one (0,nil) read at every gap
	ZeroFull  int // inputs up to this length: also the 1-byte reader with one (0,nil) read, and the io.EOF-with-data variants of the (0,nil) schedules
	PadSyn    int // genSyn programs up to this length are moved across the buffer boundary
	MetaFull  int // all strings over the full alphabet up to this length (in symbols)
	MetaCore  int // all strings over the core alphabet up to this length (in symbols)
	// metacharacter strings up to these lengths are moved across the boundary
	PadMetaFull, PadMetaCore int
	PadFull                  bool // the larger set of paddings and pad schedules
	Esc                      c07EscBounds
}

// c07Schedules enumerates the schedules of family fam for an input of n bytes.
// f returns false to stop.
func c07Schedules(fam string, n int, light bool, b c07Bounds, f func(s *c07Sched) bool) {
	emit := func(chunks []int, tail int, eofWith bool) bool {
		return f(&c07Sched{Chunks: chunks, Tail: tail, EOFWith: eofWith})
	}
	// compositions of n given by a bit mask over the n-1 gaps
	comp := func(mask int) []int {
		var out []int
		last := 0
		for i := 1; i < n; i++ {
			if mask&(1<<(i-1)) != 0 {
				out = append(out, i-last)
				last = i
			}
		}
		if n > 0 {
			out = append(out, n-last)
		}
		return out
	}
	switch fam {
	case "chunk", "eof":
		eofWith := fam == "eof"
		if n <= b.AllChunk {
			lim := 1
			if n > 1 {
				lim = 1 << (n - 1)
			}
			for m := 0; m < lim; m++ {
				if !emit(comp(m), 0, eofWith) {
					return
				}
			}
			return
		}
		if !emit(nil, 0, eofWith) { // everything at once (through the test reader)
			return
		}
		for k := 1; k <= 3; k++ { // k-byte readers
			if !emit(nil, k, eofWith) {
				return
			}
		}
		for i := 1; i < n && !(light && eofWith); i++ {
			if !emit([]int{i}, 0, eofWith) {
				return
			}
		}
		if !light && n <= b.TwoSplit && !eofWith {
			for i := 1; i < n; i++ {
				for j := i + 1; j < n; j++ {
					if !emit([]int{i, j - i}, 0, eofWith) {
						return
					}
				}
			}
		}
	case "zero":
		for _, eofWith := range []bool{false, true} {
			if eofWith && (n > b.ZeroFull || light) {
				break
			}
			// i bytes, an empty read, the rest (light: only the leading empty read)
			for i := 0; i <= n && !(light && i > 0); i++ {
				ch := []int{i, 0}
				if i == 0 {
					ch = []int{0}
				}
				if !emit(ch, 0, eofWith) {
					return
				}
			}
			// the 1-byte reader with one empty read before byte i
			for i := 0; i <= n && n <= b.ZeroFull && !light; i++ {
				ch := make([]int, 0, i+1)
				for j := 0; j < i; j++ {
					ch = append(ch, 1)
				}
				ch = append(ch, 0)
				if !emit(ch, 1, eofWith) {
					return
				}
			}
			// the 1-byte reader with an empty read before every byte
			ch := make([]int, 0, 2*n+1)
			for j := 0; j < n; j++ {
				ch = append(ch, 0, 1)
			}
			ch = append(ch, 0)
			if !emit(ch, 1, eofWith) {
				return
			}
		}
		if n <= b.ZeroAll && n > 1 {
			for m := 0; m < 1<<(n-1); m++ {
				base := comp(m)
				for at := 0; at <= len(base); at++ {
					ch := make([]int, 0, len(base)+1)
					ch = append(ch, base[:at]...)
					ch = append(ch, 0)
					ch = append(ch, base[at:]...)
					if !emit(ch, 0, false) {
						return
					}
				}
			}
		}
	}
}

func c07PadKinds(full bool) []string {
	if full {
		return []string{"comment", "spaces", "newlines"}
	}
	return []string{"comment", "spaces"}
}

func c07Pad(kind string, l int) string {
	switch kind {
	case "comment":
		return "#" + strings.Repeat("x", l-2) + "\n"
	case "spaces":
		return strings.Repeat(" ", l)
	case "newlines":
		return strings.Repeat("\n", l)
	}
	panic("bad pad kind")
}

// c07PadSchedules: schedules for an input of n bytes preceded by l bytes of
// padding; the reference is the strings.Reader parse of the padded input,
// where the parser's own buffer cuts the input at c07BufSize.
func c07PadSchedules(l, n int, full bool, f func(s *c07Sched) bool) {
	type sc = c07Sched
	list := []*sc{
		{Chunks: []int{-1}, Tail: 1}, // a full buffer, then byte by byte
		{Chunks: []int{-1}, Tail: 2}, // a full buffer, then 2 bytes at a time
		{Chunks: []int{-1, 0}},       // a full buffer, an empty read, the rest
		{EOFWith: true},              // as the reference, io.EOF together with the last bytes
	}
	if full {
		list = append(list,
			&sc{Tail: 1}, // 1-byte reader throughout
			&sc{Chunks: []int{-1}, Tail: 1, EOFWith: true},
			&sc{Chunks: []int{l}},          // the padding alone, then the input at once
			&sc{Chunks: []int{l}, Tail: 1}, // the padding alone, then byte by byte
		)
	}
	for _, s := range list {
		if !f(s) {
			return
		}
	}
	for i := 1; i < n; i++ {
		// one split inside the input, the buffer being otherwise unconstrained
		if full && !f(&sc{Chunks: []int{l + i}}) {
			return
		}
		// a full first buffer, then a split inside the part of the input that follows
		if l+i > c07BufSize {
			if !f(&sc{Chunks: []int{-1, l + i - c07BufSize}}) {
				return
			}
		}
	}
}

func c07CheckBufSize() {
	src := "#" + strings.Repeat("x", 3*c07BufSize) + "\n"
	r := &c07Reader{data: src, s: &c07Sched{}}
	syntax.NewParser().Parse(r, "")
	if r.maxAsk != c07BufSize {
		fmt.Fprintf(os.Stderr, "C07 harness: the parser asks for at most %d bytes per Read, the check assumes bufSize=%d; update c07BufSize\n", r.maxAsk, c07BufSize)
		os.Exit(2)
	}
}

func c07(c *vc.Ctx) {
	c.Level = "fault_enumeration"
	// millions of tiny parses with a tiny live heap: the default GC pacing
	// would start a collection every few MB
	debug.SetGCPercent(400)
	c07CheckBufSize()
	b := c07Bounds{
		AllChunk:    vc.Pick(c, 8, 10),
		TwoSplit:    vc.Pick(c, 14, 24),
		ZeroAll:     vc.Pick(c, 5, 6),
		ZeroFull:    vc.Pick(c, 14, 24),
		PadSyn:      vc.Pick(c, 6, 8),
		MetaFull:    vc.Pick(c, 2, 3),
		MetaCore:    vc.Pick(c, 3, 4),
		PadMetaFull: vc.Pick(c, 1, 2),
		PadMetaCore: vc.Pick(c, 2, 3),
		PadFull:     !c.Quick(),
		Esc: c07EscBounds{
			MaxRun: vc.Pick(c, 7, 9),
			Before: vc.Pick(c, []string{""}, []string{"", "a"}),
			Second: vc.Pick(c, 3, len(c07EscSecond)),
		},
	}
	space := synSpace{Depth: 1, CoreOnly: true, LayoutDepth: vc.Pick(c, 0, 1), Corpus: true, AllVariantsDeep: true, Variants: []string{"bash"}}
	padKinds := c07PadKinds(b.PadFull)
	c.Rule = "inputs: " + space.describe() + fmt.Sprintf(" (every program in all 5 variants, valid and erroring pairs alike); plus every byte string of length <=%d over %q and of length <=%d over %q, plus %d hand-written lookahead shapes, plus %s (those with at most one follower symbol also through the buffer-boundary family), each in all 5 variants. Reader schedules per input of n bytes (all legal io.Reader behaviours): n<=%d: all 2^(n-1) chunkings; longer: all-at-once, 1/2/3-byte readers, every single split point, and for n<=%d every pair of split points; a (0,nil) read after every prefix delivered at once, before every byte of the 1-byte reader, for n<=%d at each single position of the 1-byte reader, and for n<=%d at every gap of every chunking; the chunkings, single splits, k-byte readers and (for n<=%d) the (0,nil) schedules also with io.EOF returned together with the last bytes; inputs of <=%d bytes (strings over the full/core alphabet: <=%d/%d, all hand-written shapes and the escape-dense inputs just named whatever their length) preceded by l bytes of padding (%s) for every l that puts some byte of the input at offset bufSize-2..bufSize+2 of the parser's %d-byte read buffer, compared with the all-at-once parse of the same padded bytes under: full buffer then 1-byte reads, full buffer then 2-byte reads, an empty read after the full buffer, io.EOF with the last bytes, a full buffer then every split point of what follows%s. The single-gap layout deviations longer than that get the lighter set: all-at-once, 1/2/3-byte readers, single splits, a (0,nil) read first and before every byte of the 1-byte reader, and io.EOF-with-data for all-at-once and the k-byte readers. Oracle: error string, else tree dump with positions and comments, identical to the strings.Reader parse of the same bytes. distinct = distinct (variant, input) pairs, parsing and erroring counted apart",
		b.MetaFull, strings.Join(c07MetaFull, ""), b.MetaCore, strings.Join(c07MetaCore, ""), len(c07Seeds), c07EscDescribe(b.Esc), b.AllChunk, b.TwoSplit, min(b.ZeroFull, 999), b.ZeroAll, min(b.ZeroFull, 999), b.PadSyn, b.PadMetaFull, b.PadMetaCore, strings.Join(padKinds, " / "), c07BufSize,
		vc.Pick(c, "", "; for programs and hand-written shapes also the 1-byte reader throughout, the padding alone then the input at once / byte by byte, and every split point inside the input with an otherwise unconstrained buffer"))
	c.Assumptions = []string{
		"the reference is Parse over strings.NewReader (every Read fills the buffer offered, io.EOF alone afterwards)",
		"the reader never returns (0,nil) twice in a row: Parser.fill retries empty reads without bound, which the io.Reader contract permits (a reader that only ever returns (0,nil) hangs Parse; not counted as a violation)",
		"a fresh Parser per parse (reuse is C08); KeepComments(true); Parse entry point only",
		fmt.Sprintf("bufSize=%d, verified at start-up from the size of the parser's Read requests", c07BufSize),
	}
	gen := func(emit func(c07Case)) {
		seen := map[string]bool{}
		hist := map[string]int{}
		defer func() {
			if os.Getenv("VERIF_DEBUG") != "" {
				fmt.Fprintln(os.Stderr, "C07 input histogram (origin/len bucket):", hist)
			}
		}()
		one := func(src, origin string, kind, padMax int) {
			if seen[src] {
				return
			}
			seen[src] = true
			hist[fmt.Sprintf("%s/%d", origin, min(len(src)/4*4, 100))]++
			if os.Getenv("VERIF_C07_COUNT") != "" {
				// planning aid: count the schedules without parsing
				for _, fam := range []string{"chunk", "zero", "eof"} {
					c07Schedules(fam, len(src), kind == 2 && len(src) > b.AllChunk, b, func(*c07Sched) bool { hist["#"+origin+"-"+fam] += 5; return true })
				}
				if n := len(src); n <= padMax && n > 0 {
					full := b.PadFull && origin != "meta"
					for l := c07BufSize - 2 - (n - 1); l <= c07BufSize+2; l++ {
						c07PadSchedules(l, n, full, func(*c07Sched) bool { hist["#"+origin+"-pad"] += 5 * len(c07PadKinds(full)); return true })
					}
				}
				return
			}
			for _, v := range synt.Variants {
				for _, fam := range []string{"chunk", "zero", "eof"} {
					emit(c07Case{src, v.Name, fam, origin, kind, false})
				}
				if len(src) <= padMax && len(src) > 0 {
					emit(c07Case{src, v.Name, "pad", origin, kind, b.PadFull && origin != "meta"})
				}
			}
		}
		for _, s := range c07Seeds {
			one(s, "seed", 0, 1<<30)
		}
		one("", "seed", 0, 0)
		c07EscInputs(b.Esc, func(src string, pad bool) {
			pm := 0
			if pad {
				pm = 1 << 30
			}
			one(src, "esc", 0, pm)
		})
		enum.Strings(c07MetaFull, b.MetaFull, func(s string) {
			pm := 0
			if utf8.RuneCountInString(s) <= b.PadMetaFull {
				pm = 1 << 30
			}
			one(s, "meta", 0, pm)
		})
		enum.Strings(c07MetaCore, b.MetaCore, func(s string) {
			pm := 0
			if utf8.RuneCountInString(s) <= b.PadMetaCore {
				pm = 1 << 30
			}
			one(s, "meta", 0, pm)
		})
		genSyn(c, space, func(t synCase) { one(t.Src, "syn", t.Kind, b.PadSyn) })
	}
	complete := vc.Run(c, gen, func(t c07Case) *vc.Fail { return c07One(c, t, b) })
	c.Finish(complete)
}

func c07One(c *vc.Ctx, t c07Case, b c07Bounds) *vc.Fail {
	lang := synt.LangByName(t.Variant)
	ws := c07Pool.Get().(*c07WS)
	defer c07Pool.Put(ws)
	if t.Fam == "pad" {
		return c07OnePad(c, ws, t, lang)
	}
	ref := c07Parse(ws, t.Src, lang, nil)
	if ref.pan != "" {
		// a panic on the plain parse is not this property's subject (C04);
		// nothing to compare against
		c.Count("skipped_reference_panics", 1)
		return nil
	}
	if t.Fam == "chunk" {
		if ref.err == "" {
			c.Count("inputs_parsing", 1)
			c.Distinct("ok " + t.Variant + t.Src)
		} else {
			c.Count("inputs_erroring", 1)
			c.Distinct("err " + t.Variant + t.Src)
		}
	}
	var classFail, fail *vc.Fail
	nsched := 0
	c07Schedules(t.Fam, len(t.Src), t.Kind == 2 && len(t.Src) > b.AllChunk, b, func(s *c07Sched) bool {
		nsched++
		got := c07Parse(ws, t.Src, lang, s)
		kind, detail := c07Diff(c, t.Src, s, &ref, &got)
		if kind == "" {
			return true
		}
		fl := c07Confirm(c, t, t.Src, "", s, kind, detail, &ref, &got)
		if fl.Class == "" {
			fail = fl
			return false
		}
		if classFail == nil {
			classFail = fl
		}
		return true
	})
	c.Count("schedules_"+t.Fam, nsched)
	if fail != nil {
		return fail
	}
	if classFail == nil && t.Origin != "meta" && t.Fam == "chunk" {
		c.Sample(map[string]any{"src": t.Src, "variant": t.Variant, "schedules": nsched, "error": ref.err})
	}
	return classFail
}

func c07OnePad(c *vc.Ctx, ws *c07WS, t c07Case, lang syntax.LangVariant) *vc.Fail {
	n := len(t.Src)
	var classFail, fail *vc.Fail
	nsched := 0
	for _, kind := range c07PadKinds(t.Full) {
		for l := c07BufSize - 2 - (n - 1); l <= c07BufSize+2; l++ {
			padded := c07Pad(kind, l) + t.Src
			ref := c07Parse(ws, padded, lang, nil)
			if ref.pan != "" {
				c.Count("skipped_reference_panics", 1)
				continue
			}
			c07PadSchedules(l, n, t.Full, func(s *c07Sched) bool {
				nsched++
				got := c07Parse(ws, padded, lang, s)
				dk, detail := c07Diff(c, padded, s, &ref, &got)
				if dk == "" {
					return true
				}
				fl := c07Confirm(c, t, padded, fmt.Sprintf("%s*%d+", kind, l), s, dk, detail, &ref, &got)
				if fl.Class == "" {
					fail = fl
					return false
				}
				if classFail == nil {
					classFail = fl
				}
				return true
			})
			if fail != nil {
				c.Count("schedules_pad", nsched)
				return fail
			}
		}
	}
	c.Count("schedules_pad", nsched)
	return classFail
}

// c07Fail builds the failure for input `full` (= padDesc + t.Src) under
// schedule s.
func c07Fail(t c07Case, full, padDesc string, s *c07Sched, kind, detail string, ref, got *c07Result) *vc.Fail {
	key := fmt.Sprintf("%s %s%q %s %s", t.Variant, padDesc, t.Src, s, kind)
	return &vc.Fail{
		Key:   key,
		Class: c07Class(t, full, s, kind, ref, got),
		Msg:   fmt.Sprintf("[%s] %s%s read as %s: %s", t.Variant, padDesc, shortSrc(t.Src), s, detail),
	}
}

// c07Confirm re-establishes a divergence seen with the worker's cached
// parsers using new parsers for both parses. A divergence that new parsers do
// not show (or show differently) is reported as such, unclassified.
func c07Confirm(c *vc.Ctx, t c07Case, full, padDesc string, s *c07Sched, kind, detail string, ref, got *c07Result) *vc.Fail {
	ref2 := c07Parse(nil, full, ref.lang, nil)
	got2 := c07Parse(nil, full, got.lang, s)
	kind2, detail2 := c07Diff(c, full, s, &ref2, &got2)
	if kind2 != kind {
		key := fmt.Sprintf("%s %s%q %s %s with reused parsers, %q with new ones", t.Variant, padDesc, t.Src, s, kind, kind2)
		return &vc.Fail{Key: key, Msg: fmt.Sprintf("[%s] %s%s read as %s: divergence depends on parser reuse: reused: %s; new: %s", t.Variant, padDesc, shortSrc(t.Src), s, detail, detail2)}
	}
	return c07Fail(t, full, padDesc, s, kind2, detail2, &ref2, &got2)
}
