package checks

import (
	"strings"

	"mvdan.cc/sh/v3/syntax"
)

// Known defect families of C09. Each predicate looks at the syntactic shape of
// the input around the offending position and at the direction of the error;
// anything that does not match stays an unclassified violation.

// c09AtEscNewlineLF reports whether off is the LF of a backslash-LF pair.
func c09AtEscNewlineLF(src string, off int) bool {
	return off > 0 && off < len(src) && src[off] == '\n' && src[off-1] == '\\'
}

// c09AtEscNewlineMid reports whether off is the second byte of an escaped
// newline: the LF of backslash-LF or the CR of backslash-CR-LF.
func c09AtEscNewlineMid(src string, off int) bool {
	if c09AtEscNewlineLF(src, off) {
		return true
	}
	return off > 0 && off+1 < len(src) && src[off] == '\r' && src[off+1] == '\n' && src[off-1] == '\\'
}

// c09LineStartsAfterEscCRLF reports whether the line holding off starts right
// after a backslash-CR-LF sequence.
func c09LineStartsAfterEscCRLF(src string, off int) bool {
	ls := strings.LastIndexByte(src[:off], '\n') + 1
	return ls >= 3 && src[ls-3:ls] == "\\\r\n"
}

func c09Class(k *c09Checker, p c09Problem) string {
	src := k.src
	fr := p.fr
	switch p.Clause {
	case "linecol":
		// what the position would be without the two lexer defects
		crlf := uint(0)
		if c09LineStartsAfterEscCRLF(src, p.Off) {
			crlf = 1
		}
		if c09AtEscNewlineLF(src, p.Off) {
			// the position of an escaped-newline "rune": offset of the LF,
			// line/column of the backslash
			bl, bc := k.lc.at(p.Off - 1)
			add := uint(0)
			if c09LineStartsAfterEscCRLF(src, p.Off-1) {
				add = 1
			}
			if p.GotLine == bl && p.GotCol == bc+add {
				return "position-at-escaped-newline"
			}
		}
		if p.Off == len(src) && strings.HasSuffix(strings.TrimRight(src, "\x00"), "\\") && p.GotLine == p.WantLine && p.GotCol == p.WantCol+crlf+1 {
			return "eof-after-trailing-backslash"
		}
		if crlf == 1 && p.GotLine == p.WantLine && p.GotCol == p.WantCol+1 {
			return "column-after-escaped-crlf"
		}
		if c, ok := fr.node.(*syntax.Comment); ok && p.Field == "End()" && strings.Contains(c.Text, "\n") {
			return "comment-text-holds-escaped-newline"
		}
		if _, isLit := fr.node.(*syntax.Lit); isLit && p.stored {
			if anchor, ok := c09ArithmeticAnchor(fr); ok && anchor <= p.Off && p.GotLine < p.WantLine {
				seg := src[anchor:min(len(src), p.Off+1)]
				if strings.Contains(seg, "\\\n") || strings.Contains(seg, "\\\r\n") {
					return "position-by-column-arithmetic-over-dropped-bytes"
				}
			}
		}
		if p.Field == "End()" && p.GotLine < p.WantLine {
			// End() = Index.End() + len("]") or len("]="): assumes the bracket
			// directly follows the index expression
			var idx syntax.ArithmExpr
			switch x := fr.node.(type) {
			case *syntax.ParamExp:
				if x.Short {
					idx = x.Index
				}
			case *syntax.Assign:
				if x.Value == nil && x.Array == nil {
					idx = x.Index
				}
			case *syntax.ArrayElem:
				if x.Value == nil {
					idx = x.Index
				}
			}
			if idx != nil {
				if lo := int(idx.End().Offset()); lo <= p.Off && lo < len(src) && src[lo] != ']' && strings.HasPrefix(strings.TrimLeft(src[lo:], " \t\r\n\x00"), "]") {
					return "end-assumes-bracket-right-after-index"
				}
			}
		}
		if p.Field == "End()" || p.Field == "Pos()" {
			// End()/Pos() computed by adding a token length to a stored
			// position, where the token is split by an escaped newline (or
			// the computed position lands inside one)
			if tok, n := c09ComputedFrom(fr, p.Field); tok.IsValid() && n != 0 {
				lo, hi := int(tok.Offset()), p.Off
				if lo > hi {
					lo, hi = hi, lo
				}
				if hi <= len(src) {
					seg := src[lo:min(hi+1, len(src))]
					if strings.Contains(seg, "\\\n") || strings.Contains(seg, "\\\r\n") {
						return "position-by-column-arithmetic-over-dropped-bytes"
					}
				}
			}
		}
	case "literal", "literal-end":
		if l, ok := fr.node.(*syntax.Lit); ok {
			a, b := int(l.ValuePos.Offset()), int(l.ValueEnd.Offset())
			if par, ok := fr.parent.node.(*syntax.ParamExp); ok && len(par.Modifiers) > 0 && par.Modifiers[0] == l && a < len(src) && src[a] == ':' {
				if ok, _ := c09Match(src, a+1, l.Value, fr.cx, b); ok {
					return "zsh-first-modifier-starts-at-colon"
				}
			}
			if fr.cx.lang == "zsh" && l.Value == "$" {
				if ok, _ := c09Match(src, a, "$#", fr.cx, b); ok && (b == len(src) || src[b] == '"') {
					return "zsh-dollar-hash-before-eof-or-quote"
				}
			}
			if l.Value == "$" && a+1 < b && (strings.HasPrefix(src[a+1:], "\\\n") || strings.HasPrefix(src[a+1:], "\\\r\n")) {
				return "dollar-escaped-newline-swallows-invalid-name"
			}
			if anchor, ok := c09ArithmeticAnchor(fr); ok && anchor <= a {
				// position derived by adding token-text lengths to the start
				// of the word, which ignores the bytes the lexer dropped
				hi := min(len(src), b+4)
				if n := c09DroppedBytes(src[anchor:hi], fr.cx); n > 0 {
					for d := 1; d <= n && a+d <= len(src); d++ {
						if ok, _ := c09Match(src, a+d, l.Value, fr.cx, -1); ok {
							return "position-by-column-arithmetic-over-dropped-bytes"
						}
					}
					if ok, _ := c09Match(src, a, l.Value, fr.cx, -1); ok {
						return "position-by-column-arithmetic-over-dropped-bytes" // only the end is short
					}
				}
			}
			// one end of the literal is the mid-point of an escaped newline
			a2, b2 := a, b
			if c09AtEscNewlineMid(src, a) {
				a2 = a - 1
			}
			if c09AtEscNewlineMid(src, b) {
				b2 = b - 1
			}
			if a2 != a || b2 != b {
				val := l.Value
				if l == fr.cx.hdocLast && fr.cx.hdocDelimOK {
					if ok, _ := c09Match(src, a2, val+fr.cx.hdocDelim, fr.cx, b2); ok {
						return "position-at-escaped-newline"
					}
				}
				if ok, _ := c09Match(src, a2, val, fr.cx, b2); ok {
					return "position-at-escaped-newline"
				}
			}
		}
	case "end-token":
		// End() = closing position + token length, with bytes dropped inside
		// the token (a NUL, an escaped newline)
		if closePos, toks := c09ClosingToken(fr.node); len(toks) > 0 {
			a := int(closePos.Offset())
			hi := min(len(src), int(fr.end.Offset())+4)
			if a <= hi && c09DroppedBytes(src[a:hi], fr.cx) > 0 {
				for _, t := range toks {
					if ok, _ := c09Match(src, a, t, fr.cx, -1); ok {
						return "position-by-column-arithmetic-over-dropped-bytes"
					}
				}
			}
		}
	case "token":
		if f, ok := fr.node.(*syntax.FlagsArithm); ok && p.Field == "Pos()" && f.Flags != nil {
			// Pos() is Flags.Pos()-1, which is not the "(" when dropped bytes
			// stand between the parenthesis and the flags
			o := int(f.Flags.ValuePos.Offset())
			if o >= 1 && o <= len(src) && src[o-1] != '(' {
				return "position-by-column-arithmetic-over-dropped-bytes"
			}
		}
	case "invalid":
		if ci, ok := fr.node.(*syntax.CaseItem); ok && p.Field == "End()" && !ci.OpPos.IsValid() && len(ci.Stmts) == 0 && len(ci.Last) == 0 {
			return "last-case-item-without-body-has-no-end"
		}
	case "containment", "order":
		// coproc: the word first read as the coprocess name is prepended to
		// the call's arguments, but Stmt.Position (and CallExpr.Pos() when
		// the call starts with assignments) still point at the second word
		for a := fr; a != nil; a = a.parent {
			cc, ok := a.node.(*syntax.CoprocClause)
			if !ok {
				continue
			}
			if cc.Name != nil || cc.Stmt == nil {
				break
			}
			call, ok := cc.Stmt.Cmd.(*syntax.CallExpr)
			if !ok || len(call.Args) == 0 {
				break
			}
			first := call.Args[0].Pos().Offset()
			inner := fr.node == syntax.Node(cc.Stmt) || fr.node == syntax.Node(call) || fr.node == syntax.Node(call.Args[0])
			for _, as := range call.Assigns {
				inner = inner || fr.node == syntax.Node(as)
			}
			if inner && (cc.Stmt.Position.Offset() > first || (len(call.Assigns) > 0 && call.Assigns[0].Pos().Offset() > first)) {
				return "coproc-name-turned-into-first-argument"
			}
			break
		}
		if cm, ok := fr.node.(*syntax.Comment); ok && p.Clause == "containment" && strings.Contains(cm.Text, "\n") {
			return "comment-text-holds-escaped-newline"
		}
		if f, ok := fr.parent.node.(*syntax.File); ok && p.Clause == "containment" {
			// a comment ending in backslash-newline swallows the line break;
			// the following text continues the command before the comment,
			// while File.End() is the end of that comment
			for _, cm := range f.Last {
				if strings.Contains(cm.Text, "\n") {
					return "comment-text-holds-escaped-newline"
				}
			}
		}
		if p.Clause == "containment" && fr.end.IsValid() {
			// File.End() is the end of File.Last when that is not empty, else
			// the end of the last top-level statement or of that statement's
			// own comments: it misses a statement that goes on after a
			// comment (a comment inside [[ ]]), and a trailing comment held
			// by a nested statement
			top := fr
			for top.parent != nil && top.parent.parent != nil {
				top = top.parent
			}
			_, isCm := fr.node.(*syntax.Comment)
			if f, ok := top.parent.node.(*syntax.File); ok && top.parent.end.IsValid() && fr.end.Offset() > top.parent.end.Offset() {
				lastBefore := len(f.Last) > 0 && !isCm && fr == top && f.Last[len(f.Last)-1].End().Offset() < fr.end.Offset()
				nestedCm := isCm && fr.parent != top && fr.pos.Offset() >= top.parent.end.Offset()
				if lastBefore || nestedCm {
					return "file-end-misses-text-after-its-comment-based-end"
				}
			}
		}
		if _, ok := fr.node.(*syntax.Comment); ok && p.Clause == "containment" {
			// a comment written on the redirection line of a here-document
			// is attached to the first commented construct inside the body
			for a := fr.parent; a != nil; a = a.parent {
				if a.field == "Hdoc" && fr.pos.Offset() < a.pos.Offset() {
					return "comment-before-heredoc-body-attached-inside-it"
				}
			}
		}
	}
	return ""
}

// c09ComputedFrom returns, for nodes whose Pos()/End() is computed by adding a
// fixed token length to a stored position, that stored position and length.
func c09ComputedFrom(fr *c09Frame, field string) (syntax.Pos, int) {
	if field == "Pos()" {
		if x, ok := fr.node.(*syntax.FlagsArithm); ok && x.Flags != nil {
			return x.Flags.ValuePos, -1
		}
		return syntax.Pos{}, 0
	}
	switch x := fr.node.(type) {
	case *syntax.IfClause:
		return x.FiPos, 2
	case *syntax.WhileClause:
		return x.DonePos, 4
	case *syntax.ForClause:
		return x.DonePos, 4
	case *syntax.CaseClause:
		return x.Esac, 4
	case *syntax.CaseItem:
		return x.OpPos, len(x.Op.String())
	case *syntax.TimeClause:
		if x.Stmt == nil {
			return x.Time, 4
		}
	case *syntax.CStyleLoop:
		return x.Rparen, 2
	case *syntax.ArithmExp:
		return x.Right, 2
	case *syntax.ArithmCmd:
		return x.Right, 2
	case *syntax.TestClause:
		return x.Right, 2
	case *syntax.Stmt:
		if x.Semicolon.IsValid() {
			return x.Semicolon, 2
		}
		if x.Negated && x.Cmd == nil {
			return x.Position, 1
		}
	case *syntax.UnaryArithm:
		if x.Post {
			return x.OpPos, 2
		}
	case *syntax.Assign:
		switch {
		case x.Value != nil, x.Array != nil:
		case x.Index != nil:
			return x.Index.End(), 2
		case x.Name != nil:
			return x.Name.Pos(), 1 // Name.End() is itself Name.Pos()+len
		}
	case *syntax.ArrayElem:
		if x.Value == nil && x.Index != nil {
			return x.Index.End(), 2
		}
	case *syntax.ParamExp:
		if x.Short && x.Index != nil {
			return x.Index.End(), 1
		}
	case *syntax.FlagsArithm:
		if x.X == nil && x.Flags != nil {
			return x.Flags.End(), 1
		}
	case *syntax.Comment:
		return x.Hash, 1 + len(x.Text)
	case *syntax.WordIter:
		if len(x.Items) == 0 {
			return x.InPos, 2
		}
	case *syntax.ExtGlob:
		if x.Pattern != nil {
			return x.Pattern.End(), 1
		}
	}
	return syntax.Pos{}, 0
}

// c09ArithmeticAnchor returns the offset of the stored position from which
// the parser derives this literal's position by adding lengths of token text:
// the name and the first value literal of an assignment word, and the pattern
// of an extended glob.
func c09ArithmeticAnchor(fr *c09Frame) (int, bool) {
	l, ok := fr.node.(*syntax.Lit)
	if !ok || fr.parent == nil {
		return 0, false
	}
	switch par := fr.parent.node.(type) {
	case *syntax.Assign:
		if par.Name == l {
			return int(l.ValuePos.Offset()), true
		}
	case *syntax.ExtGlob:
		if par.Pattern == l {
			return int(par.OpPos.Offset()), true
		}
	case *syntax.Word:
		if len(par.Parts) > 0 && par.Parts[0] == syntax.WordPart(l) && fr.parent.parent != nil {
			if as, ok := fr.parent.parent.node.(*syntax.Assign); ok && as.Value == par && as.Name != nil {
				return int(as.Name.ValuePos.Offset()), true
			}
		}
	}
	return 0, false
}

// c09DroppedBytes bounds the number of bytes of s the lexer may drop in cx.
func c09DroppedBytes(s string, cx c09Ctx) int {
	n := 0
	var buf [4]int
	for i := 0; i < len(s); i++ {
		m := 0
		for _, d := range c09Deletable(s, i, cx, buf[:0]) {
			m = max(m, d)
		}
		n += m
	}
	return n
}
