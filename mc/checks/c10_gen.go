package checks

import (
	"strings"

	"verif/mc/synt"
	"verif/mc/vc"
)

// c10Bytes is the byte alphabet of clause 1: every shell metacharacter, a
// letter, a digit, blanks, CR, NUL and UTF-8 fragments.
var c10Bytes = []string{
	// the first 30 also form the length-4 strings of the thorough tier
	"a", " ", "\t", "\n", "\r", "\\", "'", "\"", "`", "$", "(", ")", "{", "}", "[", "]",
	"<", ">", "|", "&", ";", "#", "=", "!", "*", "-", "@", "\x00", "\xc3", "\xa9",
	"\xff", "1", "?", "+", "/", ":", ",", "^",
}

// c10Tokens is the token alphabet of clause 1: keywords, operators, openers
// and closers of every variant.
var c10Tokens = []string{
	// core (the first c10CoreTokens entries)
	"a", "b=c", "\n", ";", "&", "|", "&&", "||", "!", ";;", "(", ")", "{", "}", "[[", "]]", "((", "))",
	"if", "then", "elif", "else", "fi", "while", "until", "do", "done", "for", "in", "case", "esac", "select", "function", "time", "coproc",
	">", "<", "<<E", "<<<", "$(", "`", "${", "$((", "\"", "'", "\\", "#", "E",
	// the rest
	"1", "|&", ";&", ";|", "[", "]", "=", "==", "let", "declare", "@test", "repeat", ">>", "<<", "<<-", ">&", "&>",
	"$'", "$", "<(", "=(", "a[", "+=", "$x", "\r", "\xff",
}

const (
	c10CoreTokens  = 48 // alphabet of the length-3 sequences in the quick tier
	c10CoreTokens4 = 34 // alphabet of the length-4 sequences in the thorough tier
)

// c10Pads are valid program prefixes longer than (or just short of) the
// parser's 1024-byte read buffer.
var c10Pads = []string{
	"# " + strings.Repeat("x", 1099) + "\n",
	strings.Repeat("a\n", 520),
	strings.Repeat("a", 1021) + " ",
	strings.Repeat(" ", 1023),
	strings.Repeat("\xc3\xa9", 511) + " ",
}

const c10InsertDeep = 12 // insert/replace tokens used for the depth-1 programs

var c10InsertQuick = []string{"a", ";", "\n", "(", ")", "{", "}", "\"", "'", "`", "$(", "${", "<<E", "|", "&", "fi", "do", "\\", "\xff"}
var c10InsertThorough = []string{"a", ";", "\n", "(", "{", "\"", "'", "`", "$(", "<<E", "\\", "\xff", ")", "}", "${", "$((", "|", "&", "fi", "do", "done", "esac", "#", "\r", "\x00"}

// c10Tokenize splits a program into edit units: runs of [A-Za-z0-9_], runs
// of blanks, and every other byte on its own (so that dropping one byte of a
// multi-byte rune yields invalid UTF-8).
func c10Tokenize(s string) []string {
	var out []string
	isWord := func(b byte) bool {
		return b == '_' || (b >= '0' && b <= '9') || (b >= 'a' && b <= 'z') || (b >= 'A' && b <= 'Z')
	}
	isBlank := func(b byte) bool { return b == ' ' || b == '\t' }
	for i := 0; i < len(s); {
		j := i + 1
		switch {
		case isWord(s[i]):
			for j < len(s) && isWord(s[j]) {
				j++
			}
		case isBlank(s[i]):
			for j < len(s) && isBlank(s[j]) {
				j++
			}
		}
		out = append(out, s[i:j])
		i = j
	}
	return out
}

// c10Mutants emits every 1-token edit of src: deletion of each token,
// insertion of each alphabet token at each token boundary, replacement of
// each token by each alphabet token.
func c10Mutants(src string, alphabet []string, emit func(string)) {
	toks := c10Tokenize(src)
	if len(toks) > 60 {
		toks = toks[:60] // long corpus entries: edits within the first 60 tokens; the tail stays
	}
	offs := make([]int, len(toks)+1)
	for i, t := range toks {
		offs[i+1] = offs[i] + len(t)
	}
	for i := range toks {
		emit(src[:offs[i]] + src[offs[i+1]:])
		for _, a := range alphabet {
			if a != toks[i] {
				emit(src[:offs[i]] + a + src[offs[i+1]:])
			}
		}
	}
	for i := 0; i <= len(toks); i++ {
		for _, a := range alphabet {
			emit(src[:offs[i]] + a + src[offs[i]:])
		}
	}
}

// c10Words are hand-written words that span lines.
var c10Words = []string{
	"'s\nq'", "\"d\nq\"", "$'a\nb'", "$\"a\nb\"", "\"a $x\nb\"", "\"a\n\nb\"", "'\n'", "\"\n\"", "x'\n'y\"\n\"z",
	"$(a\nb)", "$(\na\n)", "$(a; b\n)", "`a\nb`", "`\na\n`", "\"$(a\nb)\"", "\"`a\nb`\"", "$(# c\na)", "$( (a\nb) )", "$(a |\nb)", "$(a &&\nb)",
	"${x:-a\nb}", "\"${x:-a\nb}\"", "${x:-'a\nb'}", "${x:-\"a\nb\"}", "${x/a\nb/c}", "${x#a\nb}", "${x:-$(a\nb)}", "${x:-\n}", "\"${x:-\n}\"", "${x[\n1]}", "${x:\n1}",
	"$((1+\n2))", "$((\n1\n))", "$[1+\n2]", "$((x[\n1]))", "\"$((1+\n2))\"",
	"<(a\nb)", ">(a\nb)", "@(a|\nb)", "${ a\nb;}", "${|a\nb;}",
	"a\\\nb", "\"a\\\nb\"", "'a\\\nb'", "$x\\\n$y", "\\\n",
	"$(a <<E\nbody\nE\n)", "$(a <<E\nbody\nE\nb)", "\"$(a <<E\nbody\nE\n)\"", "`a <<E\nbody\nE\n`", "$(a <<E\nbody\nE)",
	"$(case x in\na) b;;\nesac)", "$(if a\nthen b\nfi)", "$(echo 'a\nb')", "$(echo \"a\nb\")", "`echo \"a\nb\"`", "`echo \\`a\nb\\``", "\"`echo \\\"a\nb\\\"`\"",
}

// c10Contexts are the places a multi-line word is put in (one %s each, or
// two for the doubled form).
var c10Contexts = []string{
	"%s", "echo %s", "echo %s x", "a=%s", "a=%s b", "a=(%s)", "a=(x\n%s\ny)", "a=([k]=%s)", "echo \"x %s y\"", "echo $(echo %s)", "echo `echo %s`", "echo ${x:-%s}", "echo \"${x:-%s}\"",
	"for i in %s; do a; done", "case %s in a) b;; esac", "case x in %s) b;; esac", "[[ %s ]]", "[[ a == %s ]]", "[[ -n %s && b ]]", "[ %s = b ]",
	"echo <<<%s", "a >%s", "f() { echo %s; }", "if a %s; then b; fi", "( a %s )", "{ a %s; }", "a %s | b", "a %s && b", "a %s &", "! a %s", "time a %s", "coproc a %s", "function f { a %s; }",
	"echo %s <<E\nbody\nE\n", "a <<E\nx %s y\nE\n", "a <<-E\n\t%s\n\tE\n", "declare x=%s", "local x=%s", "export x=%s y", "let %s", "(( %s ))", "echo $(( %s ))", "echo %s # c", "while a %s; do b; done",
	"@test %s { a; }", "echo %s; b", "a\necho %s\nb", "echo %s\n", "echo %s\n\n", "a %s\nb %s", "echo %s%s",
}

// c10Stmts are hand-written statements laid out over several lines.
var c10Stmts = []string{
	"((1+\n2))", "[[ a &&\nb ]]", "[[ a ||\n\nb ]]", "[[ (\na\n) ]]", "[[ a\n]]", "[[\na ]]", "a=(\n1\n2\n)", "a=(\n# c\n1 # d\n)", "foo=(\n[a]=b\n[c]=d\n)", "declare a=(\n1\n)",
	"for ((i=0;\ni<3;\ni++)); do a; done", "for ((i=0; i<3; i++))\ndo a\ndone", "for ((;;)) {\na\n}",
	"case x in\na)\nb\n;;\nesac", "case x in a) ;;\n*) ;;\nesac", "case x in\n(a|b)\nc;&\nd) e;;&\nesac", "case x in\n# c\na) b;;\nesac", "case x\nin\na) b;;\nesac", "case x in a) b\nesac",
	"a |\nb", "a &&\nb", "a ||\n\nb", "a |&\nb", "a ||\n# c\nb", "a |\n# c\nb", "a \\\n| b", "a \\\n\\\nb", "a # c \\\nb", "! \\\na", "a=1 \\\nb=2 \\\nc", "a 2>&1 \\\n>f",
	"if a; then\nb\nelif c; then\nd\nelse\ne\nfi", "if a\n# c\nthen b\nfi", "if\na\nthen\nb\nfi", "if a; then b; else\nif c; then d; fi\nfi",
	"f()\n{\na\n}", "f() {\na\n}", "function f\n{\na\n}", "function f() {\na\n}\nf", "a() (\nb\n)", "test-case() {\na\n}", "f()\n\nif a; then b; fi",
	"for i\ndo a\ndone", "for i in a b\ndo\na\ndone", "for i in a \\\nb; do a; done", "select i in a\ndo a\ndone", "while\na\ndo\nb\ndone", "until a\ndo b\ndone", "while a; do\nb\ndone <f",
	"{\na\n}", "(\na\n)", "(a\nb)", "{ a\nb; }", "((a)\n)", "( (a)\n(b) )",
	"a <<E\n$(b\nc)\nE\n", "a <<E\n${x:-a\nb}\nE\n", "a <<E\n`b\nc`\nE\n", "a <<'E'\n$(\nE\n", "a <<E <<F\n1\nE\n2\nF\n", "a <<E | b <<F\n1\nE\n2\nF\n", "a <<E; b <<F\n1\nE\n2\nF\n",
	"( a <<E\nbody\nE\n)", "{ a <<E\nbody\nE\n}", "if a <<E\nbody\nE\nthen b\nfi", "a <<E && b\nbody\nE\n", "a <<E &&\nbody\nE\nb", "a <<-E\n\tb\n\tE\n", "a <<\"E\"\nb\nE\n", "a <<\\E\nb $x\nE\n",
	"a <<E\n\nE\n", "a <<E\nE\n", "a <<E\nx\\\ny\nE\n", "a <<E\nx \\\nE\nE\n", "a <<E\n\\$x \\` \\\\\nE\n", "a <<E\nb\nE", "a <<E\nb\nE\n\n", "a <<E\nb\nE\nc", "a <<E\nb\nE\nc <<F\nd\nF\n",
	"{\na <<E\nb\nE\n} <<F\nc\nF\n", "x=$(a <<E\nb\nE\n)", "x=`a <<E\nb\nE\n`", "cat <<E\n$((1+\n2))\nE\n", "a <<E\n\"\nE\n", "a <<E\n'\nE\n", "a <<E\n(\nE\n", "a <<E\n$\nE\n", "a <<E\n\\\nE\n",
	"a <<E\nb\n E\nE\n", "a <<E\nEE\nE\n", "a <<EE\nE\nEE\n", "a <<-E\n\t\tb\nE\n", "a <<'E F'\nb\nE F\n", "a <<$E\nb\n$E\n", "a <<\"\"\nb\n\n",
	"let 'a\nb'", "coproc f {\na\n}", "[[ a ]] &&\nb", "time\na", "time a |\nb", "# only\n# comments\na", "a;\nb&\nc", "a &\nb", "\n\na\n\n", "a\n\n\nb", "a\n#\nb",
	"@test 'x' {\na\n}", "repeat 3 {\na\n}", "for i (a b) {\na\n}", "if [[ a ]] {\nb\n}", "a &|\nb", "a &!\nb", "echo $(<f\n)", "echo ${|a\n}", "function {\na\n}", "() {\na\n}",
	"a\r\nb\r\n", "a \\\r\nb", "'a\r\nb'", "a <<E\r\nb\r\nE\r\n",
}

// c10StmtContexts embed a multi-line statement.
var c10StmtContexts = []string{
	"%s", "%s\n", "{ %s\n}", "( %s\n)", "if a; then\n%s\nfi", "if %s\nthen a; fi", "f() {\n%s\n}", "echo $(%s\n)", "echo \"$(%s\n)\"", "echo `%s\n`", "cat <(%s\n)",
	"a\n%s\nb", "while a; do\n%s\ndone", "case x in a)\n%s\n;; esac", "a && {\n%s\n}", "%s\n%s", "! %s", "%s &", "%s | b", "a | %s", "x=$(\n%s\n)", "a; %s",
}

// c10Relayout replaces every layout gap outside here-doc bodies by the text
// pick returns for it ("" keeps the marker and thereby the default layout).
func c10Relayout(t string, pick func(kind rune) string) string {
	var sb strings.Builder
	inBody := 0
	for _, r := range t {
		switch r {
		case '⟦':
			inBody++
		case '⟧':
			inBody--
		case '·', '¶', '¤':
			if inBody == 0 {
				if s := pick(r); s != "" {
					sb.WriteString(s)
					continue
				}
			}
		}
		sb.WriteRune(r)
	}
	return sb.String()
}

// c10Layouts are the whole-program layouts of clause 2.
var c10Layouts = []struct {
	name             string
	dot, term, open_ string
}{
	{"nl", "", "\n", "\n"},
	{"nl+escnl", " \\\n", "\n", "\n"},
	{"comments", "", " # c\n", "\n\n"},
	{"semi-nl", "", ";\n", "\n# c\n"},
	{"escnl", " \\\n", "", ""},
}

func c10Layout(t string, li int) string {
	l := c10Layouts[li]
	s, _ := synt.Render(c10Relayout(t, func(kind rune) string {
		switch kind {
		case '·':
			return l.dot
		case '¶':
			return l.term
		}
		return l.open_
	}), -1, 0)
	return s
}

// c10GenCuts emits the programs of clause 2 (each once; the caller crosses
// them with the variants and the check keeps those that parse and span lines).
func c10GenCuts(c *vc.Ctx, space synSpace, emit func(origin, src string)) {
	seen := map[string]bool{}
	one := func(origin, src string) {
		if seen[src] || !strings.Contains(src, "\n") {
			return
		}
		seen[src] = true
		emit(origin, src)
	}
	// hand-written multi-line statements and words in contexts
	for _, ctx := range c10StmtContexts {
		for _, s := range c10Stmts {
			one("mlstmt", strings.ReplaceAll(ctx, "%s", s))
		}
	}
	for _, ctx := range c10Contexts {
		for _, w := range c10Words {
			one("mlword", strings.ReplaceAll(ctx, "%s", w))
		}
	}
	// multi-line words inside the statement contexts, too
	for _, ctx := range c10StmtContexts {
		for _, w := range c10Words {
			one("mlword", strings.ReplaceAll(ctx, "%s", "echo "+w))
		}
	}
	// the shared syntax space (corpus, grammar, single-gap deviations)
	genSyn(c, space, func(t synCase) { one("grammar", t.Src) })
	// whole-program layouts
	deep := map[string]bool{}
	for _, t := range synt.Templates("S", 1, false) {
		deep[t] = true
		for li := range c10Layouts {
			one("layout", c10Layout(t, li))
		}
	}
	if !c.Quick() {
		// depth 2 (core contexts): the first three layouts
		for _, t := range synt.Templates("S", 2, true) {
			if deep[t] {
				continue
			}
			for li := 0; li < 3; li++ {
				one("layout", c10Layout(t, li))
			}
		}
	}
	// pairs of newline-bearing gap alternatives
	pairDepth := vc.Pick(c, 0, 1)
	for _, t := range synt.Templates("S", pairDepth, false) {
		alts := synt.GapAlts(t)
		if pairDepth > 0 && len(alts) > 6 {
			continue
		}
		for g1 := 0; g1 < len(alts); g1++ {
			for g2 := g1 + 1; g2 < len(alts); g2++ {
				for a1 := 0; a1 < alts[g1]; a1++ {
					if alts[g1] == 3 && a1 != 2 {
						continue // inline gaps: only the escaped-newline alternative bears a newline
					}
					for a2 := 0; a2 < alts[g2]; a2++ {
						if alts[g2] == 3 && a2 != 2 {
							continue
						}
						one("layout-pair", synt.Render2(t, g1, a1, g2, a2))
					}
				}
			}
		}
	}
	// newline-joined pairs of the depth-0 templates, default and all-newline layout
	d0 := synt.Templates("S", 0, false)
	var forms []string
	for _, t := range d0 {
		a, _ := synt.Render(t, -1, 0)
		forms = append(forms, strings.TrimSuffix(a, "\n"))
		if b := strings.TrimSuffix(c10Layout(t, 0), "\n"); b != a {
			forms = append(forms, b)
		}
	}
	for _, p := range forms {
		for _, q := range forms {
			if strings.Contains(q, "\n") || strings.Contains(p, "<<") {
				one("joined", p+"\n"+q+"\n")
			}
		}
	}
}
