package checks

// C28 part 0a ("arith"): arithmetic operators x boundary operands.
//
// The union grammar enumerates operator SHAPES with two or three hand-picked
// operands (`x<<1`, `x<<=2`, `{A}**{A}`); arithmetic faults live at operand
// BOUNDARIES (zero divisor, negative exponent, negative or >= 64 shift count,
// MinInt64 / -1, overflow). This family enumerates
//
//	every binary operator of syntax.BinAritOperator (discovered from the token
//	table by parsing `$((v OP 2))` in every variant, so that a new operator is
//	picked up) and the ternary, x every ordered pair of operands of
//	c28ArithB, with a literal/variable left operand as written (form 1) and
//	with the left operand held by a variable (form 2: the assignment
//	operators work on it), every unary operator (prefix and postfix) x every
//	operand,
//
// in the evaluating contexts $(( )), (( )), let, and the values in the
// CONSUMING contexts (slice offset/length of a string, of the positional
// parameters, of indexed/sparse/associative arrays; array subscripts in
// assignments, expansions, unset and array literals; shift/return/break/exit
// counts; declare -i; [[ -eq ]]; C-style for; OPTIND).

import (
	"fmt"
	"strings"

	"mvdan.cc/sh/v3/syntax"

	"verif/mc/synt"
)

// c28ArithB is the operand alphabet. u is unset, e is empty, n holds -1, m
// holds MinInt64 (a literal -9223372036854775808 is a unary minus applied to
// an out-of-range literal, which is a different path).
var c28ArithB = []string{"0", "1", "-1", "2", "-2", "63", "64", "65", "-63", "-64",
	"9223372036854775807", "-9223372036854775808", "u", "e", "n", "m"}

// c28ArithVars is the prelude that defines the variables of c28ArithB and the
// containers the consuming contexts slice and index.
const c28ArithVars = `unset u; e=; n=-1; m=-9223372036854775808; s=abcdef; a=(p q r t); sp=([2]=u [5]=w [70]=y); declare -A h=([k]=v [1]=w [-1]=z); set -- p1 -b 3 ''`

type c28ArithOp struct {
	Text     string
	Variants []string // the variants in which `v OP 2` parses as this operator
}

var c28ArithVariants = []string{"bash", "posix", "mksh", "zsh"}

// c28ArithBinOps discovers the binary arithmetic operators: every value of the
// token range whose text, put between two operands, parses to a BinaryArithm
// with that very operator in some variant. The ternary is recognised through
// `1 OP 2 : 3`.
func c28ArithBinOps() (ops []c28ArithOp, ternary []c28ArithOp) {
	for i := 1; i < 256; i++ {
		op := syntax.BinAritOperator(i)
		text := op.String()
		if text == "" || strings.HasPrefix(text, "token(") || strings.ContainsAny(text, " \n\t'\"`$#;(){}\\") {
			continue
		}
		var bin, tern []string
		for _, v := range c28ArithVariants {
			if c28ArithParsesTo("echo $((v "+text+" 2))", v, op) {
				bin = append(bin, v)
			} else if c28ArithParsesTo("echo $((1 "+text+" 2 : 3))", v, op) {
				tern = append(tern, v)
			}
		}
		if len(bin) > 0 {
			ops = append(ops, c28ArithOp{text, bin})
		} else if len(tern) > 0 {
			ternary = append(ternary, c28ArithOp{text, tern})
		}
	}
	return ops, ternary
}

func c28ArithParsesTo(src, variant string, op syntax.BinAritOperator) bool {
	f, err := syntax.NewParser(syntax.Variant(synt.LangByName(variant))).Parse(strings.NewReader(src), "")
	if err != nil {
		return false
	}
	found := false
	syntax.Walk(f, func(n syntax.Node) bool {
		if b, ok := n.(*syntax.BinaryArithm); ok && b.Op == op {
			found = true
		}
		return !found
	})
	return found
}

type c28ArithUnOp struct {
	Text    string
	Post    bool
	Variant string
}

// c28ArithUnOps discovers the unary operators the same way (prefix: `OP v`,
// postfix: `v OP`).
func c28ArithUnOps() []c28ArithUnOp {
	var out []c28ArithUnOp
	for i := 1; i < 256; i++ {
		op := syntax.UnAritOperator(i)
		text := op.String()
		if text == "" || strings.HasPrefix(text, "token(") || strings.ContainsAny(text, " \n\t'\"`$#;(){}\\") {
			continue
		}
		for _, post := range []bool{false, true} {
			src := "echo $((" + text + " v))"
			if post {
				src = "echo $((v " + text + "))"
			}
			for _, v := range c28ArithVariants {
				f, err := syntax.NewParser(syntax.Variant(synt.LangByName(v))).Parse(strings.NewReader(src), "")
				if err != nil {
					continue
				}
				found := false
				syntax.Walk(f, func(n syntax.Node) bool {
					if u, ok := n.(*syntax.UnaryArithm); ok && u.Op == op && u.Post == post {
						found = true
					}
					return !found
				})
				if found {
					out = append(out, c28ArithUnOp{text, post, v})
					break
				}
			}
		}
	}
	return out
}

// c28ArithEval are the contexts that only evaluate an expression E.
var c28ArithEval = []string{
	"echo $((<E>))",
	"((<E>)); echo $?",
	"let <C>; echo $?", // let takes the expression as one unquoted word: the compact rendering
}

// c28ArithConsume1 are the contexts that USE the value of one expression.
var c28ArithConsume1 = []string{
	"echo ${s: <E>}",
	"echo ${s:1:<E>}",
	"echo ${@: <E>}",
	"echo ${@:1:<E>}",
	"echo ${a[@]: <E>}",
	"echo ${sp[@]:1:<E>}",
	"echo ${a[<E>]} ${sp[<E>]}",
	"a[<E>]=q; echo ${a[@]} ${!a[@]}",
	"sp[<E>]+=q; echo ${sp[@]} ${!sp[@]}",
	"unset 'a[<E>]' 'sp[<E>]'; echo ${a[@]} ${sp[@]}",
	"a=([<E>]=q z); echo ${!a[@]}",
	"sp+=([<E>]=q z); echo ${!sp[@]}",
	"echo ${h[<E>]}; h[<E>]=q; echo ${!h[@]}",
	"shift $((<E>)); echo $#",
	"f() { return $((<E>)); }; f; echo $?",
	"for i in 1 2; do for j in 1 2; do break $((<E>)); done; done; echo $?",
	"(exit $((<E>))); echo $?",
	"declare -i d='<E>'; echo $d; d+='<E>'; echo $d",
	"[[ '<E>' -le 1 ]]; echo $?; [ $((<E>)) -ge 1 ]; echo $?",
	"for ((i = <E>; i < 2 && i > -2; i++)); do echo $i; done",
	"OPTIND=$((<E>)); getopts ab: o -ab -b v; echo $? $o $OPTIND",
}

// c28ArithSliceTargets are sliced with every (offset, length) pair of operands.
var c28ArithSliceTargets = []string{"s", "@", "*", "a[@]", "sp[@]", "h[@]", "u", "a[*]"}

// c28AE is an expression in two renderings: spaced (`1 << -1`) and compact
// (`(1)<<(-1)`, one shell word, for let).
type c28AE struct{ S, C string }

func c28ArithBin(l, op, r string) c28AE {
	return c28AE{l + " " + op + " " + r, "(" + l + ")" + op + "(" + r + ")"}
}

// c28ArithAsg has a variable as the left operand: the compact form must not
// parenthesise it.
func c28ArithAsg(op, r string) c28AE {
	return c28AE{"v " + op + " " + r, "v" + op + "(" + r + ")"}
}

func c28ArithFill(ctx string, e c28AE) string {
	return strings.ReplaceAll(strings.ReplaceAll(ctx, "<E>", e.S), "<C>", e.C)
}

// c28ArithGen emits the family. full = thorough tier. The order puts the pair
// (L, R) outermost so that every operator is seen with the first operands
// early.
func c28ArithGen(full bool, emit func(src, variant string)) {
	ops, ternary := c28ArithBinOps()
	unops := c28ArithUnOps()
	prog := func(ctx string, e c28AE, pre string) string {
		p := c28ArithVars
		if pre != "" {
			p += "; " + pre
		}
		return p + "\n" + c28ArithFill(ctx, e)
	}
	variantsOf := func(o c28ArithOp) []string {
		if full {
			return o.Variants
		}
		return o.Variants[:1]
	}
	// the left operand held by a variable: the assignment operators act on it
	lhsVar := func(l string) string {
		switch l {
		case "u":
			return "unset v"
		case "e":
			return "v="
		case "n", "m":
			return "v=$" + l
		}
		return "v=" + l
	}
	evalCtx := c28ArithEval[:1]
	if full {
		evalCtx = c28ArithEval
	}
	for _, l := range c28ArithB {
		for _, r := range c28ArithB {
			for _, o := range ops {
				for _, v := range variantsOf(o) {
					for _, ctx := range evalCtx {
						emit(prog(ctx, c28ArithBin(l, o.Text, r), ""), v)
						emit(prog(ctx+"; echo $v", c28ArithAsg(o.Text, r), lhsVar(l)), v)
					}
				}
			}
			for _, o := range ternary {
				for _, v := range variantsOf(o) {
					emit(prog(c28ArithEval[0], c28AE{S: l + " " + o.Text + " " + r + " : " + l}, ""), v)
					emit(prog(c28ArithEval[0], c28AE{S: l + " " + o.Text + " " + l + " : " + r}, ""), v)
				}
			}
		}
	}
	// unary operators and bare operands: in every evaluating and consuming context
	var small []c28AE
	for _, x := range c28ArithB {
		small = append(small, c28AE{x, x})
	}
	for _, u := range unops {
		for _, x := range c28ArithB {
			if u.Post {
				small = append(small, c28AE{x + " " + u.Text, x + u.Text})
			} else {
				small = append(small, c28AE{u.Text + " " + x, u.Text + "(" + x + ")"})
				small = append(small, c28AE{u.Text + "(" + x + ")", u.Text + "((" + x + "))"})
			}
		}
	}
	for _, ctx := range append(append([]string{}, c28ArithEval...), c28ArithConsume1...) {
		for _, x := range small {
			emit(prog(ctx, x, ""), "bash")
		}
	}
	// (( )) and let in the quick tier: every operator with the left operands 1 and n
	if !full {
		for _, ctx := range c28ArithEval[1:] {
			for _, l := range []string{"1", "n"} {
				for _, r := range c28ArithB {
					for _, o := range ops {
						emit(prog(ctx, c28ArithBin(l, o.Text, r), ""), o.Variants[0])
						emit(prog(ctx+"; echo $v", c28ArithAsg(o.Text, r), lhsVar(l)), o.Variants[0])
					}
				}
			}
		}
	}
	// slices: every (offset, length) pair
	for _, t := range c28ArithSliceTargets {
		for _, off := range c28ArithB {
			for _, ln := range c28ArithB {
				emit(c28ArithVars+"\necho ${"+t+": "+off+": "+ln+"}", "bash")
			}
		}
	}
	// thorough: every operator x pair also in the consuming contexts
	if full {
		for _, ctx := range c28ArithConsume1 {
			for _, l := range c28ArithB {
				for _, r := range c28ArithB {
					for _, o := range ops {
						emit(prog(ctx, c28ArithBin(l, o.Text, r), ""), o.Variants[0])
					}
				}
			}
		}
	}
}

func c28ArithDescribe() string {
	ops, tern := c28ArithBinOps()
	un := c28ArithUnOps()
	var ot, ut []string
	for _, o := range ops {
		ot = append(ot, o.Text)
	}
	for _, o := range tern {
		ot = append(ot, o.Text+":")
	}
	for _, u := range un {
		if u.Post {
			ut = append(ut, "x"+u.Text)
		} else {
			ut = append(ut, u.Text+"x")
		}
	}
	return fmt.Sprintf("%d binary operators of syntax.BinAritOperator discovered from the token table (%s) x ALL ordered operand pairs over %q (u unset, e empty, n=-1, m=MinInt64), written `L op R` and `v op R` after v=L; %d unary operators (%s) x every operand", len(ot), strings.Join(ot, " "), c28ArithB, len(ut), strings.Join(ut, " "))
}

// c28ArithNSmall is the number of bare and unary expressions.
func c28ArithNSmall() int {
	n := len(c28ArithB)
	for _, u := range c28ArithUnOps() {
		if u.Post {
			n += len(c28ArithB)
		} else {
			n += 2 * len(c28ArithB)
		}
	}
	return n
}
