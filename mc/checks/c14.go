package checks

import (
	"fmt"
	"runtime/debug"
	"sort"
	"strings"
	"sync"
	"sync/atomic"

	"mvdan.cc/sh/v3/syntax"

	"verif/mc/synt"
	"verif/mc/vc"
)

// C14: Walk and Preorder visit every node exactly once.
//
// For every enumerated (program, variant[, RecoverErrors]) whose parse
// succeeds, the expected node tree is built by reflection over the exported
// fields of the tree (c14_reflect.go). The real syntax.Walk and
// syntax.Preorder are then run
//   - once with a callback that always returns true,
//   - once per node index i with a callback returning false exactly at the
//     i-th non-nil call (pruning at every node),
//   - once per position j with a consumer that stops at the j-th yield.
//
// c14_decls.go reads syntax/nodes.go of the working tree and reports which
// (struct, field) pairs were never populated by any enumerated tree.

func init() { Registry["C14"] = c14 }

type c14Case struct {
	Src     string `json:"src"`
	Variant string `json:"variant"`
	// Kind: 0 corpus, 1 grammar depth<=1, 2 layout deviation, 3 depth 2,
	// 4 pair of comment deviations, 5 C14's own programs, 6 truncation.
	Kind int `json:"kind"`
	// Recover is the argument of syntax.RecoverErrors (0 = option not used).
	Recover int `json:"recover,omitempty"`
}

func c14(c *vc.Ctx) {
	space := synSpace{Depth: 2, CoreOnly: true, LayoutDepth: vc.Pick(c, 1, 2), Corpus: true, AllVariantsDeep: !c.Quick()}
	fullDepth2 := !c.Quick()
	pairDepth := 1 // depth 0 has no compound templates, hence no two comment gaps
	truncDepth := vc.Pick(c, 0, 1)
	c.Rule = space.describe() + fmt.Sprintf("; of the layout deviations only those that insert a comment are run (Walk reads positions only next to comments); plus (thorough: %v) every depth-2 expansion without the core-context restriction; plus every PAIR of comment deviations at two different gaps of the depth<=%d templates (depth 1: templates with <=8 gaps); plus %d programs of mc/checks/c14_extra.go aimed at node fields the grammar does not reach; plus every proper prefix (cut at each byte) of the corpus programs of <=60 bytes, of the depth<=%d grammar programs and of C14's own programs, parsed with RecoverErrors(4), kept when the parser returns a tree without error; every program in all 5 variants, comments kept. Per tree: expected nodes = reflection over exported fields (identity: pointer and type; Comment values by value since Walk hands out copies); Walk with an always-true callback, Walk pruned at EVERY node index, Preorder consumed fully and cut at EVERY position. distinct = distinct tree shapes (node type + parent index sequence)", fullDepth2, pairDepth, len(c14ExtraPrograms), truncDepth)
	c.Assumptions = []string{
		"reflection over exported fields (reflect package) is the trusted definition of 'reachable node'; a value counts as a node when its pointer type implements syntax.Node",
		"an interface-typed field holding a nil pointer holds no node",
		"the order among siblings is not constrained (the statement only orders parent before children)",
		"a child visited after its parent's f(nil) (Walk defers a trailing comment of Stmt/CaseItem/ArrayElem) is counted, not failed: the statement only requires one f(nil) after each entered node",
	}
	cov := newC14Coverage()
	var skippedLayout atomic.Int64
	debug.SetGCPercent(400) // allocation-heavy, small live heap apart from the generator's dedup sets
	gen := func(emit func(c14Case)) {
		all := func(src string, kind, rec int) {
			for _, v := range synt.Variants {
				emit(c14Case{Src: src, Variant: v.Name, Kind: kind, Recover: rec})
			}
		}
		// pairs of comments (same enumeration as C05)
		seen := map[string]bool{}
		for _, t := range synt.Templates("S", pairDepth, false) {
			alts := synt.GapAlts(t)
			if pairDepth > 0 && len(alts) > 8 {
				continue
			}
			for g1 := 0; g1 < len(alts); g1++ {
				for g2 := g1 + 1; g2 < len(alts); g2++ {
					for _, a1 := range synt.CommentAlts(t, g1) {
						for _, a2 := range synt.CommentAlts(t, g2) {
							src := synt.Render2(t, g1, a1, g2, a2)
							if !seen[src] {
								seen[src] = true
								all(src, 4, 0)
							}
						}
					}
				}
			}
		}
		for _, src := range c14ExtraPrograms {
			all(src, 5, 0)
		}
		// truncations with error recovery
		tseen := map[string]bool{}
		trunc := func(src string) {
			for i := 1; i < len(src); i++ {
				p := src[:i]
				if !tseen[p] {
					tseen[p] = true
					all(p, 6, 4)
				}
			}
			if !tseen[src] {
				tseen[src] = true
				all(src, 6, 4)
			}
		}
		for _, src := range synt.SyntaxCorpus() {
			if len(src) <= 60 {
				trunc(src)
			}
		}
		synt.Sources(truncDepth, false, -1, func(x synt.Source) { trunc(x.Text) })
		for _, src := range c14ExtraPrograms {
			trunc(src)
		}
		// the bulk comes last, so that a run cut short by the time budget
		// has at least covered the targeted sets above
		genSyn(c, space, func(t synCase) {
			if t.Kind == 2 && !strings.Contains(t.Src, "#") {
				// a layout deviation without a comment gives the tree shape of
				// the default layout with other positions; Walk reads positions
				// only where a Comments list is non-empty
				skippedLayout.Add(1)
				return
			}
			emit(c14Case{Src: t.Src, Variant: t.Variant, Kind: t.Kind})
		})
		if fullDepth2 {
			synt.Sources(2, false, -1, func(x synt.Source) { all(x.Text, 3, 0) })
		}
	}
	complete := vc.Run(c, gen, func(t c14Case) *vc.Fail { return c14One(c, cov, t) })
	if c.Replay == "" {
		cov.report(c)
		c.Extra["layout_deviations_without_comment_not_run"] = skippedLayout.Load()
	}
	c.Finish(complete)
}

func c14Parse(ws *synt.Workspace, t c14Case) (*syntax.File, error) {
	lang := synt.LangByName(t.Variant)
	if t.Recover == 0 {
		return ws.Parse(t.Src, lang)
	}
	key := c14ParserKey{lang, t.Recover}
	ps := c14Parsers.Get().(map[c14ParserKey]*syntax.Parser)
	defer c14Parsers.Put(ps)
	p := ps[key]
	if p == nil {
		p = syntax.NewParser(syntax.Variant(lang), syntax.KeepComments(true), syntax.RecoverErrors(t.Recover))
		ps[key] = p
	}
	f, err := p.Parse(strings.NewReader(t.Src), "")
	return f, err
}

type c14ParserKey struct {
	lang    syntax.LangVariant
	recover int
}

// parsers with RecoverErrors are cached per worker like synt.Workspace does
// for the plain ones (a panic drops the whole map, see c14One).
var c14Parsers = sync.Pool{New: func() any { return map[c14ParserKey]*syntax.Parser{} }}

// c14Run is one traversal of the real code: the events observed.
type c14Run struct {
	ev      []int32 // node index, c14Nil, or c14Unknown
	unknown []string
	calls   int
}

const (
	c14Nil     = int32(-1)
	c14Unknown = int32(-2)
)

func c14One(c *vc.Ctx, cov *c14Coverage, t c14Case) *vc.Fail {
	ws := synt.GetWorkspace()
	defer synt.PutWorkspace(ws)
	key := func() string { return fmt.Sprintf("%s r%d %q", t.Variant, t.Recover, t.Src) }
	var f *syntax.File
	var err error
	if fl := guard("parse", func() { f, err = c14Parse(ws, t) }); fl != nil {
		ws.Drop()
		c14Parsers = sync.Pool{New: c14Parsers.New}
		c.Count("parser_panics_not_judged", 1)
		return nil // a parser panic is not this property's business
	}
	if err != nil || f == nil {
		c.Count("pairs_not_parsing", 1)
		return nil
	}
	c.Count("trees", 1)
	c.Count(c14KindNames[t.Kind], 1)
	if t.Recover > 0 {
		c.Count("trees_with_error_recovery", 1)
	}
	lc := cov.local()
	tree := c14Build(f, lc, synt.LangByName(t.Variant))
	cov.release(lc)
	c.Distinct(tree.shape())
	c.Count("nodes", len(tree.nodes))
	if tree.typedNil > 0 {
		c.Count("interface_fields_holding_nil_pointer", tree.typedNil)
	}
	where := func() string {
		rec := ""
		if t.Recover > 0 {
			rec = fmt.Sprintf(",RecoverErrors(%d)", t.Recover)
		}
		return fmt.Sprintf("[%s%s] %s", t.Variant, rec, shortSrc(t.Src))
	}

	var fails []*vc.Fail
	add := func(class, k, format string, args ...any) {
		fails = append(fails, &vc.Fail{Class: class, Key: key() + " " + k, Msg: where() + ": " + fmt.Sprintf(format, args...)})
	}
	pick := func() *vc.Fail {
		if len(fails) == 0 {
			return nil
		}
		for _, fl := range fails {
			if fl.Class == "" {
				return fl
			}
		}
		return fails[0]
	}

	if len(tree.shared) > 0 {
		add("", "shared-node "+strings.Join(tree.shared, ","), "the same node is reachable through two fields (%s): it cannot be visited exactly once", strings.Join(tree.shared, ", "))
		return pick()
	}

	// ---- full walk
	// panic messages of guard carry the stack only in Detail; Key and Msg
	// are completed here
	walk := func(stopAt int, buf []int32) (r c14Run, fl *vc.Fail) {
		r.ev = buf[:0]
		fl = guard("Walk", func() {
			n := 0
			syntax.Walk(f, func(nd syntax.Node) bool {
				r.calls++
				if nd == nil {
					r.ev = append(r.ev, c14Nil)
					return true
				}
				i := tree.lookup(nd)
				if i == c14Unknown {
					r.unknown = append(r.unknown, c14Describe(nd))
				}
				r.ev = append(r.ev, i)
				n++
				return n-1 != stopAt
			})
		})
		return r, fl
	}
	full, fl := walk(-1, make([]int32, 0, 2*len(tree.nodes)))
	if fl != nil {
		fl.Class = ""
		// recognised shape: RecoverErrors returns a CaseItem without any
		// pattern ("case x in (" at EOF); Walk's comment loop calls its Pos()
		if strings.Contains(fl.Msg, "index out of range [0] with length 0") {
			for _, nd := range tree.nodes {
				if ci, ok := nd.node.(*syntax.CaseItem); ok && len(ci.Patterns) == 0 && len(ci.Comments) > 0 {
					fl.Class = "walk-panic:CaseItem-without-patterns"
				}
			}
		}
		fl.Key = key() + " " + fl.Key
		fl.Msg = where() + ": " + fl.Msg
		return fl
	}
	if len(full.unknown) > 0 {
		add("", "unknown "+strings.Join(full.unknown, ","), "Walk calls f with %s, which is not a node reachable through exported fields", strings.Join(full.unknown, ", "))
		return pick()
	}
	// seq = non-nil events; match[k] = node index closed by nil event k
	var seq []int32
	pos := make([]int, len(tree.nodes)) // position in seq, -1 = unvisited
	for i := range pos {
		pos[i] = -1
	}
	match := make([]int32, len(full.ev))
	var stack []int32
	var twice []string
	nilBad := ""
	lateChildren := 0
	for k, e := range full.ev {
		if e == c14Nil {
			if len(stack) == 0 {
				nilBad = fmt.Sprintf("f(nil) at event %d with no entered node open", k)
				break
			}
			match[k] = stack[len(stack)-1]
			stack = stack[:len(stack)-1]
			continue
		}
		if pos[e] >= 0 {
			twice = append(twice, tree.nodes[e].path)
		} else {
			pos[e] = len(seq)
		}
		seq = append(seq, e)
		par := tree.nodes[e].parent
		if par >= 0 && (len(stack) == 0 || stack[len(stack)-1] != int32(par)) {
			lateChildren++
			cov.noteLate(tree.nodes[e].path)
		}
		stack = append(stack, e)
	}
	if nilBad == "" && len(stack) > 0 {
		nilBad = fmt.Sprintf("%d entered node(s) never followed by f(nil) (first: %s)", len(stack), tree.nodes[stack[0]].typ)
	}
	if lateChildren > 0 {
		c.Count("children_visited_after_parents_nil", lateChildren)
	}
	if len(twice) > 0 {
		sort.Strings(twice)
		add("", "twice "+strings.Join(twice, ","), "visited more than once: %s", strings.Join(twice, ", "))
	}
	if nilBad != "" {
		add("", "nil-discipline", "%s", nilBad)
	}
	// unvisited: report the top-most ones (whose parent was visited)
	var missing []string
	nmissing := 0
	for i, nd := range tree.nodes {
		if pos[i] >= 0 {
			continue
		}
		nmissing++
		if nd.parent < 0 || pos[nd.parent] >= 0 {
			missing = append(missing, tree.missingLabel(i, func(j int) bool { return pos[j] >= 0 }))
		}
	}
	if nmissing > 0 {
		sort.Strings(missing)
		missing = c14Uniq(missing)
		// a class only when every top-most unvisited node has a recognised
		// shape; then the first one (sorted) names the class
		class := "not-walked:" + missing[0]
		for _, m := range missing {
			if !c14RecognisedMiss[m] {
				class = ""
			}
		}
		add(class, "unvisited "+strings.Join(missing, "+"),
			"Walk never visits %d reachable node(s); top-most: %s", nmissing, strings.Join(missing, ", "))
	}
	// parent before children
	for i, nd := range tree.nodes {
		if nd.parent >= 0 && pos[i] >= 0 && pos[nd.parent] >= 0 && pos[nd.parent] > pos[i] {
			add("", "child-first "+nd.path, "%s visited before its parent %s", nd.path, tree.nodes[nd.parent].typ)
			break
		}
	}
	if len(twice) > 0 || nilBad != "" {
		return pick() // the derived checks need a well-formed full run
	}

	// ---- pruning at every node index
	want := make([]int32, 0, len(full.ev))
	scratch := make([]int32, 0, len(full.ev))
	for i, x := range seq {
		want = want[:0]
		lo, hi := x, int32(tree.nodes[x].end)
		for k, e := range full.ev {
			if e == c14Nil {
				if m := match[k]; m >= lo && m < hi {
					continue
				}
			} else if e > lo && e < hi {
				continue
			}
			want = append(want, e)
		}
		got, fl := walk(i, scratch)
		if fl != nil {
			add("", fmt.Sprintf("prune-panic %s", tree.nodes[x].path), "Walk pruned at node %d (%s) panics: %s", i, tree.nodes[x].path, fl.Msg)
			break
		}
		if !c14Equal(got.ev, want) {
			add("", fmt.Sprintf("prune %s", tree.nodes[x].path), "returning false at node %d (%s): events %s, want %s", i, tree.nodes[x].path, tree.events(got.ev), tree.events(want))
			break
		}
	}
	c.Eval(len(seq)) // pruned walks

	// ---- Preorder: full and cut at every position
	preorder := func(stopAt int, buf []int32) (r c14Run, after int, fl *vc.Fail) {
		r.ev = buf[:0]
		fl = guard("Preorder", func() {
			stopped := false
			syntax.Preorder(f)(func(nd syntax.Node) bool {
				if stopped {
					after++
					return false
				}
				if nd == nil {
					r.ev = append(r.ev, c14Nil)
				} else {
					i := tree.lookup(nd)
					if i == c14Unknown {
						r.unknown = append(r.unknown, c14Describe(nd))
					}
					r.ev = append(r.ev, i)
				}
				if len(r.ev)-1 == stopAt {
					stopped = true
					return false
				}
				return true
			})
		})
		return
	}
	pfull, _, fl := preorder(-1, want)
	if fl != nil {
		add("", "preorder-panic", "Preorder panics: %s", fl.Msg)
	} else if !c14Equal(pfull.ev, seq) {
		add("", "preorder-seq", "Preorder yields %s, Walk visits %s", tree.events(pfull.ev), tree.events(seq))
	} else {
		for j := range seq {
			got, after, fl := preorder(j, scratch)
			if fl != nil {
				add("", "preorder-cut-panic", "Preorder stopped at position %d panics: %s", j, fl.Msg)
				break
			}
			if after > 0 || !c14Equal(got.ev, seq[:j+1]) {
				add("", "preorder-cut", "Preorder with the consumer stopping at position %d: %d yields (+%d after the stop) %s, want exactly %s", j, len(got.ev), after, tree.events(got.ev), tree.events(seq[:j+1]))
				break
			}
		}
		// the range-over-func form, stopping at the middle
		if len(seq) > 0 {
			mid, n := len(seq)/2, 0
			if fl := guard("Preorder range", func() {
				for range syntax.Preorder(f) {
					if n == mid {
						break
					}
					n++
				}
			}); fl != nil {
				add("", "preorder-range-panic", "for range Preorder with break panics: %s", fl.Msg)
			}
		}
	}
	c.Eval(len(seq)) // cut iterations

	// ---- out of the property's domain (counted only): trees post-processed
	// by syntax.SplitBraces contain BraceExp nodes
	if len(fails) == 0 && t.Recover == 0 {
		split := false
		for _, e := range seq {
			if w, ok := tree.nodes[e].node.(*syntax.Word); ok {
				if guard("", func() { split = syntax.SplitBraces(w) || split }) != nil {
					c.Count("outside_domain_splitbraces_panics", 1)
				}
			}
		}
		if split {
			c.Count("outside_domain_trees_with_braceexp", 1)
			if guard("", func() { syntax.Walk(f, func(syntax.Node) bool { return true }) }) != nil {
				c.Count("outside_domain_walk_panics_on_braceexp", 1)
			}
		}
	}
	if len(fails) == 0 && (t.Kind >= 4 || len(tree.nodes) > 40) {
		c.Sample(map[string]any{"src": t.Src, "variant": t.Variant, "recover": t.Recover, "nodes": len(tree.nodes), "walk": tree.events(seq)})
	}
	return pick()
}

var c14KindNames = []string{"trees_corpus", "trees_grammar_depth1", "trees_layout_deviation", "trees_grammar_depth2", "trees_comment_pairs", "trees_c14_extra", "trees_truncated_recovered"}

// c14RecognisedMiss are the shapes of "reachable node never visited" that
// are recorded as findings of the current tree (labels of
// c14Tree.missingLabel). Any other label, alone or next to these, leaves the
// failure unclassified.
var c14RecognisedMiss = map[string]bool{
	"DeclClause.Variant":            true, // Walk has no line for the field
	"ParamExp.Modifiers[all]":       true, // Walk has no line for the field
	"CaseItem.Comments[tail]":       true, // only the first comment placed after the patterns is visited
	"Stmt.Comments[tail,end-unset]": true, // Stmt.End() invalid (RecoverErrors): only the first comment is visited
}

func c14Equal(a, b []int32) bool {
	if len(a) != len(b) {
		return false
	}
	for i := range a {
		if a[i] != b[i] {
			return false
		}
	}
	return true
}

func c14Uniq(s []string) []string {
	out := s[:0]
	for i, x := range s {
		if i == 0 || x != s[i-1] {
			out = append(out, x)
		}
	}
	return out
}
