package checks

import (
	"strings"

	"mvdan.cc/sh/v3/syntax"
)

// G_exec for C26: small deterministic terminating programs built from
// "feature atoms" (one per line below) composed through contexts. Every atom
// uses builtins only, trivial echo/printf arguments, files only in the current
// (scratch) directory. Names used by atoms: x y l a m i j v f g f1 f2; names
// used by contexts: w k n r ll o1.

type c26Atom struct {
	Name   string
	Src    string
	Simple bool // one statement without here-document: may be used bare in `A && B`, `! A`, `A | B`
	Core   bool // member of the smaller alphabet used where the product is large
	Setup  bool // changes shell state for what follows (options, traps, variables)
}

// name, flags ("c" core, "s" setup), source
var c26AtomTable = [][3]string{
	// --- plain status / output
	{"true", "c", "true"},
	{"false", "c", "false"},
	{"echo", "c", "echo a"},
	{"colon-assign", "", "x=1 y=2; echo $x$y"},
	// --- control flow
	{"if-true", "", "if true; then echo t; else echo e; fi"},
	{"if-elif", "", "if false; then echo t; elif true; then echo ei; else echo e; fi"},
	{"if-else", "", "if false; then echo t; elif false; then echo ei; else echo e; fi"},
	{"if-false-nobranch", "", "if false; then echo t; fi"},
	{"if-cond-list", "", "if false; true; then echo t; fi"},
	{"while-counter", "c", "i=0; while [ $i -lt 3 ]; do i=$((i+1)); echo w$i; done"},
	{"until-counter", "", "i=0; until [ $i -ge 2 ]; do i=$((i+1)); echo u$i; done"},
	{"while-false", "", "while false; do echo never; done"},
	{"until-true-body-false", "", "i=0; until [ $i -ge 1 ]; do i=1; false; done"},
	{"for-in", "c", "for v in a b c; do echo $v; done"},
	{"for-in-empty", "", "for v in; do echo never; done"},
	{"for-in-body-false", "", "for v in a b; do echo $v; false; done"},
	{"for-c", "", "for ((i=0; i<3; i++)); do echo c$i; done"},
	{"for-c-nested", "", "for ((i=0; i<2; i++)); do for ((j=i; j<2; j++)); do echo $i$j; done; done"},
	{"case-basic", "c", "case b in a) echo A;; b) echo B;; *) echo D;; esac"},
	{"case-default", "", "case z in a) echo A;; b) echo B;; *) echo D;; esac"},
	{"case-nomatch", "", "case z in a) echo A;; esac"},
	{"case-fallthrough", "c", "case ab in a*) echo 1;& b) echo 2;; c) echo 3;; esac"},
	{"case-continue-match", "", "case ab in a*) echo 1;;& *b) echo 2;;& c) echo 3;; *) echo 4;; esac"},
	{"case-fall-last", "", "case a in a) echo 1;& esac"},
	{"case-patterns", "", "for v in b 7 ab 'a b' ''; do case $v in [a-c]) echo r;; [!a-z]) echo n;; a?|x) echo q;; 'a b') echo s;; '') echo e;; esac; done"},
	{"case-var-pattern", "", "x='a*'; case abc in $x) echo glob;; esac; case abc in \"$x\") echo lit;; *) echo nolit;; esac"},
	{"case-body-false", "c", "case a in a) false;; esac"},
	{"case-empty-body", "", "false; case a in a) ;; esac"},
	// --- functions and return
	{"fn-return-3", "c", "f() { echo in; return 3; echo no; }; f"},
	{"fn-return-0", "", "f() { false; return 0; }; f"},
	{"fn-return-noarg", "", "f() { false; return; }; f"},
	{"fn-return-wrap", "", "f() { return 257; }; f"},
	{"fn-last-status", "c", "f() { echo in; false; }; f"},
	{"fn-args", "", "f() { echo $# $1 \"$2\"; }; f p 'q r'"},
	{"fn-nested", "", "f() { g() { echo g; return 2; }; g; echo f$?; return 1; }; f"},
	{"fn-recursion", "c", "f() { echo d$1; [ $1 -ge 2 ] || f $(($1+1)); }; f 0"},
	{"fn-recursion-return", "", "f() { if [ $1 -ge 2 ]; then return 5; fi; f $(($1+1)); echo r$1:$?; }; f 0"},
	{"fn-redefine", "", "f() { echo one; }; f() { echo two; }; f"},
	{"fn-keyword", "", "function f { echo kw; return 2; }; f"},
	{"fn-subshell-body", "", "f() ( x=in; echo $x; exit 3 ); x=out; f; echo $?$x"},
	{"fn-return-in-subshell", "", "f() { ( return 5 ); echo s$?; }; f"},
	{"fn-return-in-loop", "", "f() { for v in 1 2; do echo $v; return 4; done; echo no; }; f"},
	{"return-toplevel", "c", "return 2"},
	{"return-toplevel-then", "", "return 2; echo after$?"},
	// --- local variables
	{"local-shadow", "c", "x=g; f() { local x=l; echo $x; }; f; echo $x"},
	{"local-novalue", "", "x=g; f() { local x; echo \"[$x]\"; x=l; }; f; echo $x"},
	{"local-unset", "c", "x=g; f() { local x=l; unset x; echo \"[$x]\"; }; f; echo $x"},
	{"local-unset-assign", "", "x=g; f() { local x=l; unset x; x=n; }; f; echo $x"},
	{"local-dynamic", "", "x=g; g() { echo $x; x=m; }; f() { local x=l; g; echo $x; }; f; echo $x"},
	{"local-cmdsubst-status", "", "f() { local x=$(false); echo $?; local y; y=$(false); echo $?; }; f"},
	{"local-array", "", "f() { local -a a=(1 2); echo ${#a[@]}; }; f; echo ${#a[@]}"},
	{"local-toplevel", "c", "local x=1"},
	{"local-toplevel-then", "", "local x=1; echo \"$?[$x]\""},
	{"local-two-levels", "", "f() { local x=1; g; echo f$x; }; g() { local x=2; echo g$x; }; f"},
	// --- subshells
	{"sub-exit-3", "c", "( exit 3 )"},
	{"sub-exit-mid", "", "( echo in; exit 2; echo no )"},
	{"sub-isolation", "", "x=1; ( x=2; echo $x ); echo $x"},
	{"sub-false", "", "( true; false )"},
	{"sub-nested", "", "( ( exit 4 ); echo $? )"},
	{"sub-fn-isolation", "", "( f() { echo subf; }; f ); f"},
	{"exit-4", "c", "exit 4"},
	{"exit-noarg", "", "false; exit"},
	{"exit-after-echo", "", "echo pre; exit 0; echo no"},
	{"exit-wrap", "", "exit 260"},
	{"brace-group", "", "{ echo a; false; }"},
	// --- command substitution
	{"cs-multiline", "c", "x=$(echo a; echo b); echo \"$x\""},
	{"cs-backquote", "", "x=`echo bq`; echo $x"},
	{"cs-nested", "", "echo $(echo $(echo n))"},
	{"cs-nested-bq", "", "echo `echo \\`echo n2\\``"},
	{"cs-trailing-newlines", "c", "x=$(echo t; echo; echo); echo \"[$x]\""},
	{"cs-assign-false", "c", "x=$(false)"},
	{"cs-assign-exit", "", "x=$(echo o; exit 3); echo $?$x"},
	{"cs-arg-false", "", "echo a$(false)b"},
	{"cs-two-assign", "", "x=$(false) y=$(true); echo $?; y=$(true) x=$(false)"},
	{"cs-export-false", "", "export x=$(false)"},
	{"cs-quoted", "", "echo \"$(echo 'a  b')\" $(echo 'c  d')"},
	{"cs-isolation", "", "x=1; y=$(x=2; echo $x); echo $x$y"},
	{"cs-exit-inside", "", "echo $(echo a; exit 3; echo b); echo $?"},
	{"cs-in-dquote-status", "", "x=\"$(exit 2)\"; echo $?"},
	// --- pipelines of builtins
	{"pipe-read-loop", "c", "echo a | while read l; do echo \"<$l>\"; done"},
	{"pipe-true-false", "c", "true | false"},
	{"pipe-false-true", "c", "false | true"},
	{"not-true", "", "! true"},
	{"not-false", "c", "! false"},
	{"not-pipe", "", "! true | false"},
	{"pipestatus", "c", "false | true | (exit 3); echo \"${PIPESTATUS[@]}\""},
	{"pipestatus-simple", "", "false; echo ${PIPESTATUS[0]}"},
	{"pipe-read-last", "c", "echo a | read x; echo \"[$x]\""},
	{"pipe-exit-first", "", "exit 3 | true"},
	{"pipe-exit-last", "c", "echo a | exit 3"},
	{"pipe-assign-last", "", "x=1; true | x=2; echo $x"},
	{"pipe-assign-first", "", "x=1; x=2 | true; echo $x"},
	{"pipe-groups", "", "{ echo a; echo b; } | { read l; echo \"<$l>\"; }"},
	{"pipe-subshell", "", "echo a | ( read l; echo \"<$l>\" )"},
	{"pipe-three", "", "echo a | { read l; echo \"<$l>\"; } | { read v; echo \"{$v}\"; }"},
	{"pipe-fn", "", "f() { echo pf; }; f | while read l; do echo \"<$l>\"; done"},
	{"pipe-stderr", "", "{ echo o; echo e >&2; } |& while read l; do echo \"<$l>\"; done"},
	// --- here-documents and here-strings
	{"hdoc-expand", "c", "x=v; while read l; do echo \"<$l>\"; done <<EOF\na $x $(echo cs) $((1+2))\nb \\$x\nEOF"},
	{"hdoc-tabs", "", "while read l; do echo \"<$l>\"; done <<-EOF\n\ta\n\t\tb\n\tEOF"},
	{"hdoc-quoted", "c", "x=v; while read l; do echo \"<$l>\"; done <<'EOF'\na $x $(echo cs)\nEOF"},
	{"hdoc-dquoted-delim", "", "x=v; while read -r l; do echo \"<$l>\"; done <<\"EOF\"\na $x \\$x\nEOF"},
	{"hdoc-backslash-delim", "", "x=v; read l <<\\EOF\na $x\nEOF\necho \"<$l>\""},
	{"hdoc-read-fields", "", "read x y <<EOF\n1 2 3\nEOF\necho \"$x|$y\""},
	{"hdoc-two", "", "read x <<A; read y <<B\none\nA\ntwo\nB\necho $x$y"},
	{"hdoc-empty", "", "read l <<EOF\nEOF\necho \"$?<$l>\""},
	{"hdoc-in-fn", "", "f() { while read l; do echo \"<$l>\"; done <<EOF\nin $1\nEOF\n}; f p"},
	{"hstr", "", "read l <<< \"a b\"; echo \"<$l>\""},
	{"hstr-var", "", "x='p  q'; read l <<< $x; echo \"<$l>\"; read l <<< \"$x\"; echo \"<$l>\""},
	{"hstr-loop", "", "while read l; do echo \"<$l>\"; done <<< l1"},
	{"hstr-cs", "", "read l <<< $(echo a; echo b); echo \"<$l>\""},
	// --- file redirections
	{"redir-write-append-read", "c", "echo a > f1; echo b >> f1; while read l; do echo \"<$l>\"; done < f1"},
	{"redir-truncate", "", "echo a > f1; echo b > f1; read l < f1; echo $l"},
	{"redir-dup-2to1", "c", "{ echo o; echo e >&2; } 2>&1"},
	{"redir-file-2to1", "", "{ echo o; echo e >&2; } > f1 2>&1; while read l; do echo \"<$l>\"; done < f1"},
	{"redir-2to1-file", "", "{ echo o; echo e >&2; } 2>&1 > f1; while read l; do echo \"<$l>\"; done < f1"},
	{"redir-amp", "", "{ echo o; echo e >&2; } &> f1; while read l; do echo \"<$l>\"; done < f1"},
	{"redir-amp-append", "", "echo a > f1; { echo o; echo e >&2; } &>> f1; while read l; do echo \"<$l>\"; done < f1"},
	{"redir-to-stderr", "", "echo e >&2"},
	{"redir-missing-in", "c", "read l < nosuch"},
	{"redir-missing-dir", "", "echo a > nosuchdir/f"},
	{"redir-missing-compound", "", "while read l; do echo \"<$l>\"; done < nosuch"},
	{"redir-empty-file", "", ": > f1; [ -f f1 ] && echo exists; [ -s f1 ] || echo empty"},
	{"redir-fd3", "", "{ echo a >&3; } 3> f1; read l < f1; echo $l"},
	{"redir-compound", "", "for v in a b; do echo $v; done > f1; if true; then read x; read y; fi < f1; echo $x$y"},
	{"redir-fn-def", "", "f() { echo fo; } > f1; f; f; read l < f1; echo $l"},
	{"redir-no-newline", "", "printf '%s' a > f1; read l < f1; echo \"$?$l\""},
	{"redir-in-out", "", "echo a > f1; while read l; do echo \"<$l>\"; done < f1 > f2; read l < f2; echo $l"},
	{"redir-noclobber-order", "", "echo a > f1 > f2; [ -s f1 ] || echo f1empty; read l < f2; echo $l"},
	// --- [[ ]]
	{"dbr-eq", "c", "[[ a == a ]]"},
	{"dbr-ne", "", "[[ a != a ]]"},
	{"dbr-glob", "", "[[ abc == a* ]] && echo g; [[ abc == \"a*\" ]] || echo q; [[ abc == a?c ]] && echo m"},
	{"dbr-var-pattern", "", "x='a*'; [[ abc == $x ]] && echo g; [[ abc == \"$x\" ]] || echo q"},
	{"dbr-regex", "c", "[[ abc =~ ^a(b)c$ ]] && echo ${BASH_REMATCH[0]} ${BASH_REMATCH[1]}"},
	{"dbr-regex-nomatch", "", "[[ abc =~ ^b ]]"},
	{"dbr-regex-quoted", "", "[[ abc =~ \"a.c\" ]] || echo lit; [[ a.c =~ \"a.c\" ]] && echo m"},
	{"dbr-regex-var", "", "x='^a.c$'; [[ abc =~ $x ]] && echo m"},
	{"dbr-numeric", "", "[[ 2 -lt 10 ]] && echo n; [[ 2 < 10 ]] || echo s; [[ 10 -ge 10 ]] && echo ge"},
	{"dbr-arith-operands", "", "x=3; [[ x -eq 3 ]] && echo v; [[ 1+2 -eq 3 ]] && echo e; [[ a -eq b ]] && echo z"},
	{"dbr-unset", "", "[[ -n $x ]] || echo n; [[ -z $x ]] && echo z; [[ $x == \"\" ]] && echo e; [[ -v x ]] || echo unset"},
	{"dbr-nosplit", "", "x='a b'; [[ $x == 'a b' ]] && echo ns; [[ -n $x ]] && echo n"},
	{"dbr-logic", "c", "[[ a == a && b == c ]] || echo and; [[ a == b || c == c ]] && echo or; [[ ! a == b ]] && echo not; [[ ( a == b || c == c ) && d == d ]] && echo par"},
	{"dbr-files", "", ": > f1; [[ -f f1 ]] && echo f; [[ -d . ]] && echo d; [[ -e nosuch ]] || echo ne; [[ -s f1 ]] || echo empty"},
	{"dbr-bare-word", "", "[[ a ]] && echo w; [[ \"\" ]] || echo e"},
	// --- test / [
	{"test-eq", "c", "[ a = a ]"},
	{"test-ne", "", "[ a != a ]"},
	{"test-numeric", "", "[ 1 -eq 1 ] && echo eq; [ 1 -gt 2 ] || echo gt; [ 1 -lt 2 -a 2 -lt 3 ] && echo and"},
	{"test-strings", "", "[ -n \"\" ] || echo n; [ -z \"\" ] && echo z; [ a ] && echo w; [ \"\" ] || echo e; [ ] || echo none"},
	{"test-not", "", "[ ! a ] || echo na; [ ! \"\" ] && echo ne; [ ! a = b ] && echo neq"},
	{"test-logic", "", "[ a = a -a b = c ] || echo and; [ a = b -o c = c ] && echo or; [ \\( a = a \\) ] && echo par"},
	{"test-one-arg-op", "", "[ -n ] && echo n; [ -z ] && echo z; [ ! ] && echo b"},
	{"test-bad-int", "c", "[ x -eq 1 ]"},
	{"test-missing-operand", "", "[ 1 -eq ]"},
	{"test-missing-bracket", "", "[ a = a"},
	{"test-unquoted-split", "", "x='a b'; [ $x = 'a b' ]"},
	{"test-unset-unquoted", "", "[ -n $x ] && echo t; [ -z $x ] && echo z; [ $x = a ]"},
	{"test-builtin", "", "test a = a && echo t; test -d . && echo d; test; echo $?"},
	{"test-files", "", ": > f1; [ -f f1 ] && echo f; [ -e nosuch ] || echo ne; [ -d f1 ] || echo nd"},
	// --- arrays
	{"arr-basic", "c", "a=(p q r); echo ${a[1]} ${#a[@]} ${a[@]} $a"},
	{"arr-star", "", "a=(p 'q r'); echo \"${a[*]}\"; for v in \"${a[@]}\"; do echo \"<$v>\"; done; for v in ${a[@]}; do echo \"{$v}\"; done"},
	{"arr-sparse", "", "a=(p q); a[5]=z; echo ${!a[@]} ${#a[@]} ${a[-1]}"},
	{"arr-append", "", "a=(p); a+=(q r); a[1]+=s; echo ${a[@]}"},
	{"arr-unset-elem", "", "a=(p q r); unset 'a[1]'; echo ${a[@]} ${#a[@]} ${!a[@]}"},
	{"arr-empty", "", "a=(); echo ${#a[@]} \"[${a[@]}]\"; for v in \"${a[@]}\"; do echo never; done"},
	{"arr-slice", "", "a=(p q r s); echo \"${a[@]:1:2}\" ${a[@]:2}"},
	{"arr-index-arith", "", "a=(p q r); i=1; echo ${a[i]} ${a[$i]} ${a[i+1]} ${a[2-1]}"},
	{"arr-arith-elem", "c", "a=(1 2); echo $((a[0]+a[1])); ((a[0]++)); echo ${a[0]}"},
	{"arr-arith-assign-elem", "", "a=(1 2); ((a[1]+=5)); echo ${a[@]}; ((a[0] > 0)) && echo pos"},
	{"arr-assoc", "c", "declare -A m; m[k]=v; m[j]=w; echo ${m[k]} ${m[j]} ${#m[@]}"},
	{"arr-assoc-literal", "", "declare -A m=([k]=v); echo ${m[k]} ${!m[@]}; [[ -v m[k] ]] && echo set; unset 'm[k]'; echo ${#m[@]}"},
	{"arr-scalar-as-array", "", "x=s; echo ${x[0]} ${#x[@]}; x[1]=t; echo ${x[@]}"},
	{"arr-elem-length", "", "a=(pq r); echo ${#a} ${#a[0]} ${#a[1]}"},
	{"arr-unset-whole", "", "a=(p q); unset a; echo \"[${a[@]}]\" ${#a[@]}"},
	// --- set -e and pipefail (also see the setup atoms)
	{"errexit-false", "", "set -e; false; echo no"},
	{"errexit-and-or", "", "set -e; false && echo x; echo a$?; false || echo y; true && false; echo no"},
	{"errexit-not", "", "set -e; ! true; echo a$?; ! false; echo b$?"},
	{"errexit-cond", "", "set -e; if false; then :; fi; while false; do :; done; until true; do :; done; echo ok"},
	{"errexit-fn", "", "set -e; f() { false; echo infn; }; f; echo no"},
	{"errexit-fn-in-cond", "", "set -e; f() { false; echo infn; }; if f; then echo t; fi; f && echo a; f || echo o; ! f; echo end"},
	{"errexit-subshell", "", "set -e; ( false; echo insub ); echo no"},
	{"errexit-subshell-cond", "", "set -e; ( false; echo insub ) || echo o; echo end"},
	{"errexit-cmdsubst", "", "set -e; x=$(false; echo incs); echo \"[$x]$?\"; y=$(false); echo no"},
	{"errexit-cmdsubst-arg", "", "set -e; echo a$(false)b; echo ok"},
	{"errexit-pipeline", "", "set -e; false | true; echo a; true | false; echo no"},
	{"errexit-pipefail", "", "set -e; set -o pipefail; false | true; echo no"},
	{"errexit-off", "", "set -e; set +e; false; echo ok$?"},
	{"errexit-brace-last", "", "set -e; { false; echo inbrace; }; echo no"},
	{"errexit-loop-body", "", "set -e; for v in 1 2; do echo $v; false; done; echo no"},
	{"errexit-case", "", "set -e; case a in a) false; echo incase;; esac; echo no"},
	{"errexit-arith", "", "set -e; ((0)); echo no"},
	{"errexit-let-dbr", "", "set -e; [[ a == b ]]; echo no"},
	{"errexit-set-in-fn", "", "f() { set -e; }; f; false; echo no"},
	{"errexit-set-in-subshell", "", "( set -e ); false; echo ok"},
	{"errexit-dollar-dash", "", "set -e; case $- in *e*) echo on;; esac; set +e; case $- in *e*) echo on;; *) echo off;; esac"},
	{"pipefail-status", "", "set -o pipefail; false | true; echo $?; (exit 2) | (exit 3) | true; echo $?; true | true; echo $?"},
	{"pipefail-not", "", "set -o pipefail; ! false | true; echo $?"},
	{"pipefail-off", "", "set -o pipefail; set +o pipefail; false | true; echo $?"},
	// --- traps on EXIT and ERR
	{"trap-exit", "", "trap 'echo EXIT:$?' EXIT; echo body; false"},
	{"trap-exit-exit", "", "trap 'echo EXIT:$?' EXIT; exit 3"},
	{"trap-exit-status-change", "", "trap 'exit 7' EXIT; exit 3"},
	{"trap-exit-false-keeps", "", "trap 'echo T; false' EXIT; exit 3"},
	{"trap-exit-override", "", "trap 'echo e1' EXIT; trap 'echo e2' EXIT"},
	{"trap-exit-reset", "", "trap 'echo e1' EXIT; trap - EXIT"},
	{"trap-exit-subshell", "c", "( trap 'echo sEXIT:$?' EXIT; echo body; exit 3 ); echo after$?"},
	{"trap-exit-not-inherited", "", "trap 'echo EXIT' EXIT; ( echo sub ); echo main"},
	{"trap-exit-in-fn", "", "f() { trap 'echo fEXIT' EXIT; echo inf; }; f; echo after"},
	{"trap-exit-cmdsubst", "", "x=$(trap 'echo cEXIT' EXIT; echo body); echo \"$x\""},
	{"trap-exit-errexit", "", "set -e; trap 'echo EXIT:$?' EXIT; false; echo no"},
	{"trap-err", "c", "trap 'echo ERR:$?' ERR; false; echo a; (exit 3); echo b; true"},
	{"trap-err-conditions", "", "trap 'echo ERR' ERR; false && true; if false; then :; fi; ! true; false || true; echo quiet"},
	{"trap-err-pipeline", "", "trap 'echo ERR' ERR; false | true; echo a; true | false; echo b"},
	{"trap-err-fn", "", "trap 'echo ERR' ERR; f() { false; echo inf; }; f; g() { false; }; g; echo end"},
	{"trap-err-subshell", "", "trap 'echo ERR' ERR; ( false; echo insub ); ( false ); echo end"},
	{"trap-err-cmdsubst", "", "trap 'echo ERR' ERR; x=$(false; echo incs); echo \"$x\"; x=$(false); echo end"},
	{"trap-err-errexit", "", "set -e; trap 'echo ERR:$?' ERR; trap 'echo EXIT:$?' EXIT; (exit 5); echo no"},
	{"trap-err-reset", "", "trap 'echo ERR' ERR; trap - ERR; false; echo quiet"},
	{"trap-err-in-subshell-set", "", "( trap 'echo sERR' ERR; false; echo insub ); false; echo end"},
	{"trap-err-in-fn-set", "", "f() { trap 'echo fERR' ERR; false; echo inf; }; f; false; echo end"},
	{"trap-err-status-kept", "", "trap 'true' ERR; false; echo $?"},
	// --- break / continue with levels
	{"break", "c", "break"},
	{"continue", "c", "continue"},
	{"break-2", "c", "break 2"},
	{"continue-2", "", "continue 2"},
	{"break-0", "", "break 0"},
	{"break-99", "", "break 99"},
	{"continue-99", "", "continue 99"},
	{"break-neg", "", "break -1"},
	{"break-nonnumeric", "", "break x"},
	{"break-nested-2", "c", "for i in 1 2; do for j in a b; do echo $i$j; break 2; done; echo o$i; done"},
	{"continue-nested-2", "", "for i in 1 2; do for j in a b; do echo $i$j; continue 2; done; echo o$i; done"},
	{"break-nested-1", "", "for i in 1 2; do for j in a b; do echo $i$j; break; done; echo o$i; done"},
	{"continue-nested-1", "", "for i in 1 2; do for j in a b; do echo $i$j; continue; echo no; done; echo o$i; done"},
	{"break-out-of-range", "", "for i in 1 2; do for j in a b; do echo $i$j; break 3; done; echo o$i; done; echo $?"},
	{"continue-out-of-range", "", "for i in 1 2; do for j in a b; do echo $i$j; continue 3; done; echo o$i; done; echo $?"},
	{"break-0-in-loop", "", "for i in 1 2; do echo $i; break 0; echo s$?; done; echo $?"},
	{"continue-0-in-loop", "", "for i in 1 2; do echo $i; continue 0; echo s$?; done; echo $?"},
	{"break-in-fn-from-loop", "", "f() { break; }; for i in 1 2; do echo $i; f; echo a$?; done"},
	{"break-in-subshell-in-loop", "", "for i in 1 2; do ( break; echo s ); echo $i$?; done"},
	{"break-while-until", "", "i=0; while true; do until false; do i=$((i+1)); [ $i -ge 2 ] && break 2; echo $i; continue 2; done; echo no; done; echo $i"},
	{"break-status", "", "for i in 1; do false; break; done; echo $?; for i in 1; do false; continue; done; echo $?"},
	{"break-in-case", "", "for i in 1 2; do case $i in 1) continue;; 2) break;; esac; echo no; done; echo end"},
	{"break-in-while-cond", "", "i=0; while i=$((i+1)); [ $i -lt 3 ] || break; [ $i -lt 6 ]; do echo b$i; done; echo $i"},
	{"break-for-c", "", "for ((i=0; i<5; i++)); do [ $i = 1 ] && continue; [ $i = 3 ] && break; echo $i; done; echo $i"},
	// --- setup atoms: state that the following statements run under
	{"set-e", "sc", "set -e"},
	{"set-pipefail", "s", "set -o pipefail"},
	{"set-e-pipefail", "s", "set -e -o pipefail"},
	{"set-trap-exit", "s", "trap 'echo EXIT:$?' EXIT"},
	{"set-trap-err", "sc", "trap 'echo ERR:$?' ERR"},
	{"set-e-trap-err", "s", "set -e; trap 'echo ERR:$?' ERR"},
	{"set-e-trap-exit", "s", "set -e; trap 'echo EXIT:$?' EXIT"},
	{"set-false-last", "s", "false"},
	{"set-vars", "s", "x=X; a=(A B); l=L"},
}

// c26Atoms is filled by c26BuildAtoms (called from the check, not at init
// time, so that a mistake here cannot take other checks down).
var c26Atoms []c26Atom

func c26BuildAtoms() {
	if c26Atoms != nil {
		return
	}
	var out []c26Atom
	seen := map[string]bool{}
	for _, r := range c26AtomTable {
		if seen[r[0]] {
			panic("c26: duplicate atom " + r[0])
		}
		seen[r[0]] = true
		a := c26Atom{Name: r[0], Src: r[2], Core: strings.Contains(r[1], "c"), Setup: strings.Contains(r[1], "s")}
		f, err := syntax.NewParser(syntax.Variant(syntax.LangBash)).Parse(strings.NewReader(a.Src), "")
		if err != nil {
			panic("c26: atom " + a.Name + " does not parse: " + err.Error())
		}
		a.Simple = len(f.Stmts) == 1 && !strings.Contains(a.Src, "<<") && !strings.Contains(a.Src, "\n") &&
			!f.Stmts[0].Negated && !f.Stmts[0].Background && !c26IsPipeOrList(f.Stmts[0])
		out = append(out, a)
	}
	c26Atoms = out
}

func c26IsPipeOrList(s *syntax.Stmt) bool {
	_, ok := s.Cmd.(*syntax.BinaryCmd)
	return ok
}

// grp renders an atom for a position that needs a single command.
func (a c26Atom) grp() string {
	if a.Simple {
		return a.Src
	}
	return "{\n" + a.Src + "\n}"
}

// c26Unary are the one-hole composition contexts. %S is replaced by the
// statement text on its own lines, %G by a single command (bare or braced).
var c26Unary = []struct{ Name, Tmpl string }{
	{"plain", "%S"},
	{"fn", "w() {\n%S\n}; w"},
	{"subshell", "(\n%S\n)"},
	{"if-cond", "if\n%S\nthen echo T:$?; else echo F:$?; fi"},
	{"else-body", "if false; then :; else\n%S\nfi"},
	{"loop-body", "for k in 1 2; do\n%S\necho k$k:$?; done"},
	{"while-cond", "n=0; while\n%S\ndo n=$((n+1)); echo body$n; [ $n -ge 2 ] && break; done"},
	{"cmdsubst", "r=$(\n%S\n); echo \"$?[$r]\""},
	{"and-left", "%G && echo A:$?"},
	{"or-left", "%G || echo O:$?"},
	{"and-right", "true && %G"},
	{"or-right", "false || %G"},
	{"not", "! %G"},
	{"pipe-left", "%G | while read ll; do echo \"<$ll>\"; done"},
	{"pipe-right", "true | %G"}, // the left side writes nothing: a writer racing a non-reading right side gets SIGPIPE in bash only
	{"redir-out", "{\n%S\n} > o1; while read ll; do echo \"<$ll>\"; done < o1"},
	{"case-body", "case x in x)\n%S\n;; esac"},
}

// c26Binary are the two-hole contexts.
var c26Binary = []struct{ Name, Tmpl string }{
	{"seq", "%S1\n%S2"},
	{"and", "%G1 && %G2"},
	{"or", "%G1 || %G2"},
	{"pipe", "%G1 | %G2"},
	{"if-then", "if\n%S1\nthen\n%S2\nfi"},
	{"while-body", "n=0; while\n%S1\ndo n=$((n+1)); [ $n -gt 2 ] && break\n%S2\ndone"},
	{"fn-then", "w() {\n%S1\n}; w\n%S2"},
	{"subshell-then", "(\n%S1\n)\n%S2"},
}

const c26Suffix = "\necho end:$?\n"

type c26Stmt struct {
	desc   string
	src    string
	simple bool
}

func c26FromAtom(a c26Atom) c26Stmt { return c26Stmt{a.Name, a.Src, a.Simple} }

func (s c26Stmt) grp() string {
	if s.simple {
		return s.src
	}
	return "{\n" + s.src + "\n}"
}

// c26LoopsForever reports whether putting statement s in the condition of a while
// loop would never terminate (a `continue` reaching that loop).
func c26LoopsForever(desc string) bool {
	// (continue-out-of-range is `continue 3` inside two loops: it reaches the
	// enclosing while as well)
	return strings.Contains(desc, "continue") && !strings.Contains(desc, "continue-nested") && !strings.Contains(desc, "continue-0-in")
}

func c26ApplyU(ui int, s c26Stmt) c26Stmt {
	u := c26Unary[ui]
	if u.Name == "plain" {
		return s
	}
	t := strings.ReplaceAll(u.Tmpl, "%S", s.src)
	t = strings.ReplaceAll(t, "%G", s.grp())
	return c26Stmt{u.Name + "(" + s.desc + ")", t, false}
}

func c26ApplyB(bi int, s1, s2 c26Stmt) c26Stmt {
	b := c26Binary[bi]
	t := b.Tmpl
	t = strings.ReplaceAll(t, "%S1", s1.src)
	t = strings.ReplaceAll(t, "%S2", s2.src)
	t = strings.ReplaceAll(t, "%G1", s1.grp())
	t = strings.ReplaceAll(t, "%G2", s2.grp())
	return c26Stmt{b.Name + "(" + s1.desc + "," + s2.desc + ")", t, false}
}

// c26GenPrograms enumerates the grammar programs of the tier. Every program
// ends with `echo end:$?`, so that the status left by the composition is part
// of the output as well as whether execution got that far.
func c26GenPrograms(thorough bool, emit func(desc, src string)) {
	var all, core, setup, qsetup, csetup []c26Atom
	for _, a := range c26Atoms {
		all = append(all, a)
		if a.Core {
			core = append(core, a)
		}
		if a.Setup {
			setup = append(setup, a)
			switch a.Name {
			case "set-e", "set-pipefail", "set-trap-exit", "set-trap-err":
				qsetup = append(qsetup, a)
			}
			if a.Core {
				csetup = append(csetup, a)
			}
		}
	}
	out := func(pre string, preDesc string, s c26Stmt) {
		if pre != "" {
			emit(preDesc+"; "+s.desc, pre+"\n"+s.src+c26Suffix)
		} else {
			emit(s.desc, s.src+c26Suffix)
		}
	}
	// (1) one atom in every unary context, alone and after a setup atom
	// (quick: set -e, pipefail, EXIT trap, ERR trap; thorough: all setups)
	s1 := qsetup
	if thorough {
		s1 = setup
	}
	for _, a := range all {
		for ui := range c26Unary {
			if c26Unary[ui].Name == "while-cond" && c26LoopsForever(a.Name) {
				continue
			}
			s := c26ApplyU(ui, c26FromAtom(a))
			out("", "", s)
			for _, st := range s1 {
				out(st.Src, st.Name, s)
			}
		}
	}
	// (2) two atoms in every binary context: quick core x core; thorough
	// all x core and core x all
	for _, a := range all {
		for _, b := range all {
			if !(a.Core && b.Core) && !(thorough && (a.Core || b.Core)) {
				continue
			}
			for bi := range c26Binary {
				if c26Binary[bi].Name == "while-body" && c26LoopsForever(a.Name) {
					continue
				}
				out("", "", c26ApplyB(bi, c26FromAtom(a), c26FromAtom(b)))
			}
		}
	}
	if !thorough {
		return
	}
	// (3) three atoms: core setup; binary(core, core)
	for _, st := range csetup {
		for _, a := range core {
			for _, b := range core {
				for bi := range c26Binary {
					if c26Binary[bi].Name == "while-body" && c26LoopsForever(a.Name) {
						continue
					}
					out(st.Src, st.Name, c26ApplyB(bi, c26FromAtom(a), c26FromAtom(b)))
				}
			}
		}
	}
	// (4) two nested unary contexts around one atom
	for _, a := range all {
		for u1 := range c26Unary {
			if c26Unary[u1].Name == "plain" {
				continue
			}
			for u2 := range c26Unary {
				if c26Unary[u2].Name == "plain" || (u1 == u2 && c26Unary[u1].Name == "while-cond") {
					// while-cond twice would reset the shared counter n forever
					continue
				}
				if (c26Unary[u1].Name == "while-cond" || c26Unary[u2].Name == "while-cond") && c26LoopsForever(a.Name) {
					continue
				}
				out("", "", c26ApplyU(u1, c26ApplyU(u2, c26FromAtom(a))))
			}
		}
	}
	// (5) two of the quick setup atoms, then one core atom in every unary context
	for _, s1 := range qsetup {
		for _, s2 := range qsetup {
			if s1.Name == s2.Name {
				continue
			}
			for _, a := range core {
				for ui := range c26Unary {
					if c26Unary[ui].Name == "while-cond" && c26LoopsForever(a.Name) {
						continue
					}
					out(s1.Src+"\n"+s2.Src, s1.Name+"; "+s2.Name, c26ApplyU(ui, c26FromAtom(a)))
				}
			}
		}
	}
}
