package checks

import (
	"bytes"
	"encoding/json"
	"fmt"
	"reflect"
	"sort"
	"strconv"
	"strings"

	"mvdan.cc/sh/v3/syntax"
)

// ---- an ordered, mutable JSON value --------------------------------------

// c15jv is a JSON value that keeps the order of object members, so that a
// mutated document renders deterministically.
type c15jv struct {
	k     byte   // 'o' object, 'a' array, 's' scalar
	raw   string // scalar: its JSON text
	keys  []string
	elems []*c15jv // object members (parallel to keys) or array elements
}

func c15Scalar(raw string) *c15jv { return &c15jv{k: 's', raw: raw} }

func c15Obj(kv ...any) *c15jv {
	o := &c15jv{k: 'o'}
	for i := 0; i+1 < len(kv); i += 2 {
		o.keys = append(o.keys, kv[i].(string))
		o.elems = append(o.elems, kv[i+1].(*c15jv))
	}
	return o
}

func c15Arr(elems ...*c15jv) *c15jv { return &c15jv{k: 'a', elems: elems} }

func c15Str(s string) *c15jv {
	b, _ := json.Marshal(s)
	return c15Scalar(string(b))
}

func (v *c15jv) clone() *c15jv {
	n := &c15jv{k: v.k, raw: v.raw}
	if v.keys != nil {
		n.keys = append([]string(nil), v.keys...)
	}
	if v.elems != nil {
		n.elems = make([]*c15jv, len(v.elems))
		for i, e := range v.elems {
			n.elems[i] = e.clone()
		}
	}
	return n
}

func (v *c15jv) render(b *bytes.Buffer) {
	switch v.k {
	case 's':
		b.WriteString(v.raw)
	case 'a':
		b.WriteByte('[')
		for i, e := range v.elems {
			if i > 0 {
				b.WriteByte(',')
			}
			e.render(b)
		}
		b.WriteByte(']')
	case 'o':
		b.WriteByte('{')
		for i, e := range v.elems {
			if i > 0 {
				b.WriteByte(',')
			}
			b.WriteString(strconv.Quote(v.keys[i])) // keys are plain ASCII identifiers
			b.WriteByte(':')
			e.render(b)
		}
		b.WriteByte('}')
	}
}

func (v *c15jv) String() string {
	var b bytes.Buffer
	v.render(&b)
	return b.String()
}

// c15ParseJSON reads one JSON document keeping member order.
func c15ParseJSON(data []byte) (*c15jv, error) {
	dec := json.NewDecoder(bytes.NewReader(data))
	dec.UseNumber()
	var val func() (*c15jv, error)
	val = func() (*c15jv, error) {
		tok, err := dec.Token()
		if err != nil {
			return nil, err
		}
		switch t := tok.(type) {
		case json.Delim:
			switch t {
			case '{':
				o := &c15jv{k: 'o'}
				for dec.More() {
					kt, err := dec.Token()
					if err != nil {
						return nil, err
					}
					e, err := val()
					if err != nil {
						return nil, err
					}
					o.keys = append(o.keys, kt.(string))
					o.elems = append(o.elems, e)
				}
				_, err := dec.Token()
				return o, err
			case '[':
				a := &c15jv{k: 'a'}
				for dec.More() {
					e, err := val()
					if err != nil {
						return nil, err
					}
					a.elems = append(a.elems, e)
				}
				_, err := dec.Token()
				return a, err
			}
			return nil, fmt.Errorf("unexpected delimiter %v", t)
		case json.Number:
			return c15Scalar(t.String()), nil
		case string:
			return c15Str(t), nil
		case bool:
			return c15Scalar(strconv.FormatBool(t)), nil
		case nil:
			return c15Scalar("null"), nil
		}
		return nil, fmt.Errorf("unexpected token %v", tok)
	}
	return val()
}

// ---- the node type universe, found by reflection over zero values ----------

// c15NodeZero has one zero value of every syntax.Node type.
var c15NodeZero = []syntax.Node{
	&syntax.File{}, &syntax.Comment{}, &syntax.Stmt{}, &syntax.Assign{}, &syntax.Redirect{}, &syntax.Word{},
	&syntax.Lit{}, &syntax.SglQuoted{}, &syntax.DblQuoted{}, &syntax.ParamExp{}, &syntax.CmdSubst{}, &syntax.CallExpr{},
	&syntax.ArithmExp{}, &syntax.ProcSubst{}, &syntax.ExtGlob{}, &syntax.BraceExp{},
	&syntax.ArithmCmd{}, &syntax.BinaryCmd{}, &syntax.IfClause{}, &syntax.ForClause{}, &syntax.WhileClause{},
	&syntax.CaseClause{}, &syntax.Block{}, &syntax.Subshell{}, &syntax.FuncDecl{}, &syntax.TestClause{},
	&syntax.DeclClause{}, &syntax.LetClause{}, &syntax.TimeClause{}, &syntax.CoprocClause{}, &syntax.TestDecl{},
	&syntax.UnaryArithm{}, &syntax.BinaryArithm{}, &syntax.ParenArithm{}, &syntax.FlagsArithm{},
	&syntax.UnaryTest{}, &syntax.BinaryTest{}, &syntax.ParenTest{},
	&syntax.WordIter{}, &syntax.CStyleLoop{}, &syntax.CaseItem{}, &syntax.ArrayExpr{}, &syntax.ArrayElem{},
}

var c15PosType = reflect.TypeFor[syntax.Pos]()

// c15Universe describes the struct types reachable from the node types.
type c15Universe struct {
	TypeNames  []string // node type names, sorted
	FieldNames []string // union of the field names of all reachable structs, sorted
	// Contexts: for every reachable struct type (node or not) a function
	// wrapping an object for that struct into a decodable root document.
	Contexts []c15Context
}

type c15Context struct {
	Name string // struct type name
	Node bool
	// Wrap returns a root document in which obj is decoded as this struct.
	// For node types obj itself is the root (its "Type" is set by the caller).
	Wrap func(obj *c15jv) *c15jv
}

func c15BuildUniverse() c15Universe {
	var u c15Universe
	fields := map[string]bool{}
	nodeTypes := map[reflect.Type]bool{}
	seen := map[reflect.Type]bool{}
	type item struct {
		t    reflect.Type
		wrap func(*c15jv) *c15jv
	}
	var queue []item
	for _, n := range c15NodeZero {
		t := reflect.TypeOf(n).Elem()
		nodeTypes[t] = true
		u.TypeNames = append(u.TypeNames, t.Name())
	}
	sort.Strings(u.TypeNames)
	for _, n := range c15NodeZero {
		t := reflect.TypeOf(n).Elem()
		seen[t] = true
		queue = append(queue, item{t, func(o *c15jv) *c15jv { return o }})
	}
	for len(queue) > 0 {
		it := queue[0]
		queue = queue[1:]
		u.Contexts = append(u.Contexts, c15Context{Name: it.t.Name(), Node: nodeTypes[it.t], Wrap: it.wrap})
		for i := 0; i < it.t.NumField(); i++ {
			f := it.t.Field(i)
			fields[f.Name] = true
			ft := f.Type
			inSlice := false
			for ft.Kind() == reflect.Pointer || ft.Kind() == reflect.Slice {
				if ft.Kind() == reflect.Slice {
					inSlice = true
				}
				ft = ft.Elem()
			}
			if ft.Kind() != reflect.Struct || ft == c15PosType || seen[ft] {
				continue
			}
			seen[ft] = true
			parent, pname, fname, sl := it.wrap, it.t.Name(), f.Name, inSlice
			isNode := nodeTypes[it.t]
			queue = append(queue, item{ft, func(o *c15jv) *c15jv {
				var inner *c15jv = o
				if sl {
					inner = c15Arr(o)
				}
				po := c15Obj(fname, inner)
				if isNode {
					po = c15Obj("Type", c15Str(pname), fname, inner)
				}
				return parent(po)
			}})
		}
	}
	for f := range fields {
		u.FieldNames = append(u.FieldNames, f)
	}
	sort.Strings(u.FieldNames)
	return u
}

// ---- mutation menus ---------------------------------------------------------

type c15Menu struct {
	Values  []*c15jv // replacement values
	Renames []string // key rename targets
	DocKeys bool     // also rename to every key occurring in the document itself
	Types   []string // "Type" swap targets
}

// c15ValueMenu is the menu of replacement JSON values of DESIGN §3 C15.
func c15ValueMenu() []*c15jv {
	return []*c15jv{
		c15Scalar("null"), c15Scalar("true"), c15Scalar("false"), c15Scalar("0"), c15Scalar("-1"), c15Scalar("1.5"), c15Scalar("1e99"),
		c15Scalar("4294967296"), c15Scalar("4294967295"), c15Scalar("255"), c15Scalar("256"),
		c15Str(""), c15Str("x"), c15Str("&&"), c15Arr(), c15Obj(), c15Arr(c15Scalar("null")), c15Arr(c15Arr()),
		c15Obj("Type", c15Str("Lit")), c15Obj("Type", c15Str("Nope")), c15Obj("Type", c15Scalar("3")),
		c15Obj("Offset", c15Scalar("0"), "Line", c15Scalar("1"), "Col", c15Scalar("1")),
	}
}

// ---- mutation enumeration ---------------------------------------------------

type c15slot struct {
	parent *c15jv // nil for the root
	idx    int
}

func c15CollectSlots(root *c15jv) []c15slot {
	slots := []c15slot{{nil, 0}}
	var rec func(v *c15jv)
	rec = func(v *c15jv) {
		for i, e := range v.elems {
			slots = append(slots, c15slot{v, i})
			rec(e)
		}
	}
	rec(root)
	return slots
}

// c15CountMutations returns the number of single-point mutations of root.
func c15CountMutations(root *c15jv, m *c15Menu) int {
	n := 0
	rp := root
	c15EachMutation(&rp, m, func() bool { n++; return true })
	return n
}

// c15EachMutation applies every single-point mutation of *rootp in turn,
// calling visit with the mutated document in place, and undoes it afterwards.
// visit returning false stops the enumeration.
func c15EachMutation(rootp **c15jv, m *c15Menu, visit func() bool) bool {
	slots := c15CollectSlots(*rootp)
	get := func(s c15slot) *c15jv {
		if s.parent == nil {
			return *rootp
		}
		return s.parent.elems[s.idx]
	}
	set := func(s c15slot, v *c15jv) {
		if s.parent == nil {
			*rootp = v
		} else {
			s.parent.elems[s.idx] = v
		}
	}
	for _, s := range slots {
		cur := get(s)
		// (a) value replaced by each menu value
		for _, mv := range m.Values {
			set(s, mv.clone())
			ok := visit()
			set(s, cur)
			if !ok {
				return false
			}
		}
		// (b) key deleted / renamed; array element deleted / duplicated
		if p := s.parent; p != nil {
			oldElems := p.elems
			ne := make([]*c15jv, 0, len(oldElems)+1)
			ne = append(ne, oldElems[:s.idx]...)
			ne = append(ne, oldElems[s.idx+1:]...)
			if p.k == 'o' {
				oldKeys := p.keys
				nk := make([]string, 0, len(oldKeys))
				nk = append(nk, oldKeys[:s.idx]...)
				nk = append(nk, oldKeys[s.idx+1:]...)
				p.keys, p.elems = nk, ne
				ok := visit()
				p.keys, p.elems = oldKeys, oldElems
				if !ok {
					return false
				}
				orig := p.keys[s.idx]
				for _, name := range m.Renames {
					if name == orig {
						continue
					}
					p.keys[s.idx] = name
					ok := visit()
					p.keys[s.idx] = orig
					if !ok {
						return false
					}
				}
			} else {
				p.elems = ne
				ok := visit()
				p.elems = oldElems
				if !ok {
					return false
				}
			}
		}
		// (c) "Type" of an object swapped among all node type names (added
		// when the object has none)
		if cur.k == 'o' {
			ti := -1
			for i, k := range cur.keys {
				if k == "Type" {
					ti = i
					break
				}
			}
			if ti >= 0 {
				old := cur.elems[ti]
				for _, tn := range m.Types {
					nv := c15Str(tn)
					if nv.raw == old.raw {
						continue
					}
					cur.elems[ti] = nv
					ok := visit()
					cur.elems[ti] = old
					if !ok {
						return false
					}
				}
			} else {
				oldKeys, oldElems := cur.keys, cur.elems
				for _, tn := range m.Types {
					cur.keys = append([]string{"Type"}, oldKeys...)
					cur.elems = append([]*c15jv{c15Str(tn)}, oldElems...)
					ok := visit()
					cur.keys, cur.elems = oldKeys, oldElems
					if !ok {
						return false
					}
				}
			}
		}
	}
	return true
}

// c15PanicShape normalises a panic message for use in keys and classes.
func c15PanicShape(r any) string {
	s := fmt.Sprint(r)
	if i := strings.IndexByte(s, '\n'); i >= 0 {
		s = s[:i]
	}
	return s
}
