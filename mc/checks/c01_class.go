package checks

import (
	"regexp"
	"strconv"
	"strings"

	"mvdan.cc/sh/v3/syntax"

	"verif/mc/synt"
)

// Known defect families of C01. Each predicate looks at the syntactic shape
// of the printed tree, the configuration and the direction of the divergence;
// where the shape alone would be too wide, it also runs a counterfactual on
// the real printer and parser (same tree with the trigger removed must round
// trip under the same configuration). Anything that matches none of them
// stays unclassified and is reported as a VIOLATION.
//
// Order matters only for the report (the first matching name is used).
func c01Classify(x *c01Ctx, d *c01Div) string {
	if d.Kind != "reparse" && d.Kind != "tree" {
		return "" // print errors, panics and a missing refusal have no known family
	}
	switch {
	case c01ZshDollarHashAtEOF(x, d):
		return "zsh-dollar-hash-at-eof-parsed-as-literal"
	case c01CoprocFirstWord(x, d):
		return "coproc-first-word-taken-as-name"
	case c01CommentAfterLet(x, d):
		return "comment-after-let-rejected-by-parser"
	case c01StaleTerminator(x, d):
		return "no-separator-after-construct-ending-in-background-stmt"
	case c01HeredocInHeredocSingleLine(x, d):
		return "singleline-heredoc-in-cmdsubst-inside-heredoc-body"
	case c01EmptyBlockMinified(x, d):
		return "minify-empty-block-printed-as-word"
	case c01RedirBeforeFuncDecl(x, d):
		return "zsh-redirect-before-funcdecl-moves-into-body"
	case c01ZshMinifyShortForm(x, d):
		return "zsh-minify-short-form-absorbs-continuation"
	case c01CommentEndsInBackslash(x, d):
		return "comment-ending-in-backslash-continues-line"
	case c01HeredocSkippedAfterTestOrLet(x, d):
		return "parser-heredoc-body-skipped-after-test-or-let-clause"
	case c01SingleLinePendingHeredoc(x, d):
		return "singleline-pending-heredoc-written-inside-next-statement"
	case c01KeepPaddingPadsDelimiter(x, d):
		return "keeppadding-pads-heredoc-delimiter-line"
	case c01PendingHeredocInsideConstruct(x, d):
		return "pending-heredoc-written-inside-later-construct"
	}
	return ""
}

// --- zsh: "$#" at the very end of the input ---------------------------------
//
// Parser defect: in zsh mode the short form "$#" directly followed by the end
// of the input is parsed as the literal "$" and the "#" is lost
// (paramNameStart treats EOF as the start of a name, so "$#" is taken as the
// length prefix of a missing name). With a newline after it the same text
// parses as the parameter expansion $#. File prints always end in a newline,
// so this shows only when a node is printed alone.
//
// Predicate: variant zsh; a Stmt/Command/Word printed alone; the printed text
// ends in "$#" (not preceded by a backslash); the same text followed by a
// newline parses to the original node.
func c01ZshDollarHashAtEOF(x *c01Ctx, d *c01Div) bool {
	if x.lang != syntax.LangZsh || d.What == "File" || d.Kind != "tree" {
		return false
	}
	if !strings.HasSuffix(d.Out, "$#") || strings.HasSuffix(d.Out, "\\$#") {
		return false
	}
	return x.reparsesTo(d.Out+"\n", d)
}

// reparsesTo reports whether text parses to the node printed in d.
func (x *c01Ctx) reparsesTo(text string, d *c01Div) bool {
	f2, err := x.ws.Parse(text, x.lang)
	if err != nil {
		return false
	}
	got, ok := c01Pick(d.What, f2)
	return ok && synt.Dump(got, synt.DumpOpts{Cosmetic: true, Minify: d.Cfg.Minify}) == d.Orig
}

// --- coproc: the first word is parsed as the coprocess name ------------------
//
// Parser defect (coprocClause): the word after "coproc" is always read as a
// plain word (a candidate name) before the command is parsed, and is then
// pushed back in front of the call's arguments. So
//   - "coproc a=1 b=2 c" becomes a call with the argument words [a=1 c] and
//     the assignment b=2, "coproc echo a=b" a call with argument echo and the
//     assignment a=b: the printer prints assignments first ("coproc b=2 a=1
//     c", "coproc a=b echo"), which is another program;
//   - "coproc a=1" and "coproc time" become a call whose only argument is the
//     literal word a=1 / time: printed alone that call is an assignment / a
//     time clause.
//
// Predicate: the printed node contains (or is the statement/call of) a
// CoprocClause without a name whose command is a CallExpr that either has an
// argument word positioned before one of its assignments (impossible for a
// correctly parsed simple command), or (only when that call or its statement
// is what was printed alone) whose first argument starts with a literal that
// has the shape of an assignment (name=, name+=, name[..]=) or is a reserved
// word.
var c01AssignShape = regexp.MustCompile(`^[A-Za-z_][A-Za-z0-9_]*(\[[^\]]*\])?\+?=`)

// c01ClauseWords are the literal words that start something other than a
// simple command when they come first in a statement.
var c01ClauseWords = map[string]bool{
	"{": true, "}": true, "if": true, "then": true, "elif": true, "else": true, "fi": true, "while": true, "until": true, "for": true,
	"do": true, "done": true, "case": true, "esac": true, "!": true, "[[": true, "]]": true, "let": true, "function": true,
	"declare": true, "local": true, "export": true, "readonly": true, "typeset": true, "nameref": true, "time": true,
	"coproc": true, "select": true, "@test": true,
}

func c01CoprocFirstWord(x *c01Ctx, d *c01Div) bool {
	found := false
	syntax.Walk(d.Root, func(n syntax.Node) bool {
		cc, ok := n.(*syntax.CoprocClause)
		if !ok || found {
			return !found
		}
		if cc.Name != nil || cc.Stmt == nil {
			return true
		}
		ce, ok := cc.Stmt.Cmd.(*syntax.CallExpr)
		if !ok || len(ce.Args) == 0 {
			return true
		}
		inside := c01Contains(d.Node, cc) || d.Node == syntax.Node(cc.Stmt) || d.Node == syntax.Node(ce)
		if !inside {
			return true
		}
		for _, a := range ce.Assigns {
			if ce.Args[0].Pos().IsValid() && a.Pos().After(ce.Args[0].Pos()) {
				found = true // an argument word before an assignment
				return false
			}
		}
		if d.Kind == "tree" && (d.Node == syntax.Node(cc.Stmt) || d.Node == syntax.Node(ce)) && len(ce.Assigns) == 0 {
			// the text up to the "=" is within the word's leading literals
			prefix := ""
			for _, wp := range ce.Args[0].Parts {
				lit, ok := wp.(*syntax.Lit)
				if !ok {
					break
				}
				prefix += lit.Value
			}
			if c01AssignShape.MatchString(prefix) || c01ClauseWords[ce.Args[0].Lit()] {
				found = true
				return false
			}
		}
		return true
	})
	return found
}

// c01Contains reports whether target is root or a node below it.
func c01Contains(root, target syntax.Node) bool {
	found := false
	syntax.Walk(root, func(n syntax.Node) bool {
		if n == target {
			found = true
		}
		return !found
	})
	return found
}

// --- let: a comment after a let clause does not parse -----------------------
//
// Parser defect: "let i++ # c" is rejected ("statements must be separated by
// &, ; or a newline" at the '#'), although bash takes the rest of the line as
// a comment. Such inputs are outside the property's domain, but the printer
// moves a comment that followed the loop header ("select i in w # c1" newline
// "do let ..; done") behind the first statement of the body, which then ends
// in the let clause.
//
// Predicate: the output does not parse; the error is that message and points
// at a '#' of the output; the text before that '#' on its line ends with the
// printed form of a LetClause of the tree (same configuration).
var c01ErrPos = regexp.MustCompile(`^(\d+):(\d+): `)

func c01CommentAfterLet(x *c01Ctx, d *c01Div) bool {
	if d.Kind != "reparse" || !strings.Contains(d.Err, "statements must be separated by &, ; or a newline") {
		return false
	}
	m := c01ErrPos.FindStringSubmatch(d.Err)
	if m == nil {
		return false
	}
	line, _ := strconv.Atoi(m[1])
	col, _ := strconv.Atoi(m[2])
	lines := strings.Split(d.Out, "\n")
	if line < 1 || line > len(lines) || col < 1 || col > len(lines[line-1]) || lines[line-1][col-1] != '#' {
		return false
	}
	before := strings.TrimRight(lines[line-1][:col-1], " ")
	found := false
	syntax.Walk(d.Node, func(n syntax.Node) bool {
		if lc, ok := n.(*syntax.LetClause); ok && !found {
			if txt, err := x.ws.Print(d.Cfg, lc); err == nil && txt != "" && strings.HasSuffix(before, strings.TrimRight(txt, " \n")) {
				found = true
			}
		}
		return !found
	})
	return found
}

// --- a construct whose last statement ends in & / |& / &| --------------------
//
// Printer defect: Printer.wroteSemi ("the terminator of the current statement
// has been written") is set by a statement ending in "&", "|&" (mksh) or
// "&|"/"&!" (zsh) and is still set after the construct that encloses that
// statement has been closed, so the separator that must follow the construct
// is left out: "for i in $(a &) b; do a; done" prints as "for i in $(a &) b do
// a; done" with default options, "{ { a & }; a; }" as "{ { a & } a; }" in
// single-line mode, "if { a & }; then a; fi" as "if { a&}then a;fi" when
// minifying. The result does not parse or parses to another tree.
//
// Predicate: below the printed node there is a nested statement list whose
// last statement has Background, Coprocess or Disown set; and the same tree
// with those flags cleared round trips under the same configuration.
func c01StaleTerminator(x *c01Ctx, d *c01Div) bool {
	if !c01ClearNestedLastTerminators(d.Node, true) {
		return false
	}
	return x.counterfactual(d, d.Cfg, func(n syntax.Node) { c01ClearNestedLastTerminators(n, false) })
}

// c01ClearNestedLastTerminators finds the statements that close a nested
// statement list with & / |& / &|. With dry set it only reports whether there
// is one; otherwise it clears the flags.
func c01ClearNestedLastTerminators(root syntax.Node, dry bool) bool {
	found := false
	list := func(stmts []*syntax.Stmt) {
		if len(stmts) == 0 {
			return
		}
		s := stmts[len(stmts)-1]
		if s.Background || s.Coprocess || s.Disown {
			found = true
			if !dry {
				s.Background, s.Coprocess, s.Disown = false, false, false
			}
		}
	}
	syntax.Walk(root, func(n syntax.Node) bool {
		switch n := n.(type) {
		case *syntax.Block:
			list(n.Stmts)
		case *syntax.Subshell:
			list(n.Stmts)
		case *syntax.CmdSubst:
			list(n.Stmts)
		case *syntax.ProcSubst:
			list(n.Stmts)
		case *syntax.IfClause:
			list(n.Cond)
			list(n.Then)
		case *syntax.WhileClause:
			list(n.Cond)
			list(n.Do)
		case *syntax.ForClause:
			list(n.Do)
		case *syntax.CaseItem:
			list(n.Stmts)
		}
		return true
	})
	return found
}

// counterfactual re-creates the printed node in a fresh tree, applies edit to
// it and reports whether it then round trips under cfg.
func (x *c01Ctx) counterfactual(d *c01Div, cfg synt.Config, edit func(syntax.Node)) bool {
	root := x.tree(d.Simplified)
	if root == nil {
		return false
	}
	var n syntax.Node = root
	if d.What != "File" {
		if n = c01NodeAt(root, d.Index); n == nil {
			return false
		}
	}
	if edit != nil {
		edit(n)
	}
	return x.roundTrip(n, d.What, cfg, nil) == nil
}

// --- SingleLine: here-document inside $( ) inside a here-document body ------
//
// Printer defect: in single-line mode no newline is written inside a command
// substitution, so the body of a here-document that starts inside a command
// substitution which itself sits in the body of an outer here-document is
// written after the end of the outer body: "a <<E\nx $(a <<E\nbody\nE\n)
// y\nE\n" prints as "a <<E\nx $(a <<E) y\nE\n\nbody\nE".
//
// Predicate: SingleLine set; the tree has a here-document whose body contains
// a command substitution that contains a here-document; without SingleLine
// the same configuration round trips.
func c01HeredocInHeredocSingleLine(x *c01Ctx, d *c01Div) bool {
	if !d.Cfg.Single {
		return false
	}
	isHdoc := func(r *syntax.Redirect) bool {
		return (r.Op == syntax.Hdoc || r.Op == syntax.DashHdoc) && r.Hdoc != nil
	}
	found := false
	syntax.Walk(d.Node, func(n syntax.Node) bool {
		r, ok := n.(*syntax.Redirect)
		if !ok || !isHdoc(r) || found {
			return !found
		}
		syntax.Walk(r.Hdoc, func(n syntax.Node) bool {
			cs, ok := n.(*syntax.CmdSubst)
			if !ok || found {
				return !found
			}
			syntax.Walk(cs, func(n syntax.Node) bool {
				if r2, ok := n.(*syntax.Redirect); ok && (r2.Op == syntax.Hdoc || r2.Op == syntax.DashHdoc) {
					found = true
				}
				return !found
			})
			return !found
		})
		return !found
	})
	if !found {
		return false
	}
	cfg := d.Cfg
	cfg.Single = false
	return x.counterfactual(d, cfg, nil)
}

// --- Minify: an empty block -----------------------------------------------
//
// Printer defect: a block without statements ("{ }", accepted in mksh) is
// minified to "{}", which is an ordinary word.
//
// Predicate: Minify set; the printed node contains a Block without
// statements; the output contains "{}"; the same configuration without
// Minify round trips.
func c01EmptyBlockMinified(x *c01Ctx, d *c01Div) bool {
	if !d.Cfg.Minify || !strings.Contains(d.Out, "{}") {
		return false
	}
	found := false
	syntax.Walk(d.Node, func(n syntax.Node) bool {
		if b, ok := n.(*syntax.Block); ok && len(b.Stmts) == 0 {
			found = true
		}
		return !found
	})
	if !found {
		return false
	}
	cfg := d.Cfg
	cfg.Minify = false
	return x.counterfactual(d, cfg, nil)
}

// --- zsh: redirection in front of a function declaration -------------------
//
// Printer defect: zsh accepts ">f foo() { bar; }", giving a statement with
// the redirect and the FuncDecl as its command. The printer writes statement
// redirects after the command ("foo() { bar; } >f"), where the parser
// attaches them to the function body.
//
// Predicate: the printed node contains a Stmt whose command is a FuncDecl and
// which has a redirect of its own positioned before the declaration; the
// output parses to a different tree.
func c01RedirBeforeFuncDecl(x *c01Ctx, d *c01Div) bool {
	if d.Kind != "tree" {
		return false
	}
	found := false
	syntax.Walk(d.Node, func(n syntax.Node) bool {
		if s, ok := n.(*syntax.Stmt); ok && len(s.Redirs) > 0 {
			if fd, ok := s.Cmd.(*syntax.FuncDecl); ok && fd.Pos().After(s.Redirs[0].Pos()) {
				found = true
			}
		}
		return !found
	})
	return found
}

// --- zsh, Minify: ${x} shortened in front of text the short form absorbs -----
//
// Printer defect: Minify rewrites ${x} to $x unless the next literal could
// continue the name. In zsh the short form also takes a following subscript
// ("$x[1]" is ${x[1]}) and "$#" followed by the start of a parameter is a
// length ("$#1" is ${#1}, "$#@" is ${#@}, also $#$x and $#"a"), so "echo
// ${x}[1]" -> "echo $x[1]" and "echo ${#}1" -> "echo $#1" change the tree
// ("echo ${x}[" -> "echo $x[" does not even parse).
//
// Predicate: variant zsh; Minify set; the printed node has a word in which a
// ${..} is directly followed by a part whose text starts with "[", or ${#} by
// a part whose text starts with a name character, a digit or one of @ * # !
// $ ? - "; without Minify the same configuration round trips.
func c01ZshMinifyShortForm(x *c01Ctx, d *c01Div) bool {
	if x.lang != syntax.LangZsh || !d.Cfg.Minify {
		return false
	}
	found := false
	parts := func(ps []syntax.WordPart) {
		for i := 0; i+1 < len(ps); i++ {
			pe, ok := ps[i].(*syntax.ParamExp)
			if !ok || pe.Short || pe.Param == nil {
				continue
			}
			// first byte of the printed form of the next part
			var c byte
			switch next := ps[i+1].(type) {
			case *syntax.Lit:
				if next.Value != "" {
					c = next.Value[0]
				}
			case *syntax.ParamExp, *syntax.CmdSubst, *syntax.ArithmExp:
				c = '$'
			case *syntax.DblQuoted:
				c = '"'
			case *syntax.SglQuoted:
				if next.Dollar {
					c = '$'
				}
			}
			nameRune := c == '_' || c >= '0' && c <= '9' || c >= 'a' && c <= 'z' || c >= 'A' && c <= 'Z'
			if c == '[' || pe.Param.Value == "#" && (nameRune || c != 0 && strings.IndexByte("@*#!$?-\"", c) >= 0) {
				found = true
			}
		}
	}
	syntax.Walk(d.Node, func(n syntax.Node) bool {
		switch n := n.(type) {
		case *syntax.Word:
			parts(n.Parts)
		case *syntax.DblQuoted:
			parts(n.Parts)
		}
		return !found
	})
	if !found {
		return false
	}
	cfg := d.Cfg
	cfg.Minify = false
	return x.counterfactual(d, cfg, nil)
}
