// Package checks holds one file per property.
package checks

import "verif/mc/vc"

var Registry = map[string]func(*vc.Ctx){}
