package checks

import (
	"sort"
	"strings"

	"mvdan.cc/sh/v3/syntax"

	"verif/mc/synt"
)

// Defect families found by the statement-pair family (round 3).

// --- parser: here-document body skipped after "]]" / a let clause ------------
//
// Parser defect: testClause consumes "]]" and letClause reads up to its stop
// token while the parser is still in the nested quote state entered by
// preNested, in which pending here-documents are "buried". When the token
// after "]]" / the last let expression is the newline at which a pending
// here-document body starts, the newline is lexed in that state, doHeredocs
// is not called, and the body lines are parsed as commands (Redirect.Hdoc
// stays nil): "a <<E; [[ b ]]\nx\nE\n" parses to the three statements
// `a <<E`, `[[ b ]]`, `x`, `E`. bash reads the body. Reached from the printer
// through SingleLine, which puts the next statement on the line of a pending
// here-document.
//
// Predicate: the printed text parses; in that parse a statement whose command
// is a TestClause or LetClause ends directly in front of a newline; the same
// text with ";" inserted at those places parses to the original node (the
// ";" makes the parser read the newline in the outer state). When the printed
// text does not parse at all, the only place tried is the end of its first
// line, which must end in "]]" or hold a let clause.
func c01HeredocSkippedAfterTestOrLet(x *c01Ctx, d *c01Div) bool {
	if !strings.Contains(d.Out, "<<") {
		return false
	}
	return c01SourceHeredocSkipped(x, d) || c01PrintedHeredocSkipped(x, d)
}

func c01PrintedHeredocSkipped(x *c01Ctx, d *c01Div) bool {
	var offs []int
	f2, err := x.ws.Parse(d.Out, x.lang)
	if err != nil {
		// the skipped body lines do not even parse as commands (e.g. an empty
		// body leaves only the delimiter and the here-document "unclosed"):
		// take the places textually, on the first line only
		o := strings.IndexByte(d.Out, '\n')
		if o < 0 {
			return false
		}
		if line := d.Out[:o]; !strings.HasSuffix(line, "]]") && !strings.Contains(" "+line, " let ") && !strings.Contains(line, ";let ") {
			return false
		}
		if d.Orig == "" { // not filled in for output that does not parse
			d.Orig = synt.Dump(d.Node, synt.DumpOpts{Cosmetic: true, Minify: d.Cfg.Minify})
		}
		return x.reparsesTo(d.Out[:o]+";"+d.Out[o:], d)
	}
	syntax.Walk(f2, func(n syntax.Node) bool {
		st, ok := n.(*syntax.Stmt)
		if !ok {
			return true
		}
		switch st.Cmd.(type) {
		case *syntax.TestClause, *syntax.LetClause:
			if len(st.Redirs) > 0 || st.Background || st.Coprocess || st.Disown {
				return true
			}
			if o := int(st.Cmd.End().Offset()); o < len(d.Out) && d.Out[o] == '\n' {
				offs = append(offs, o)
			}
		}
		return true
	})
	if len(offs) == 0 {
		return false
	}
	sort.Sort(sort.Reverse(sort.IntSlice(offs)))
	text := d.Out
	for _, o := range offs {
		text = text[:o] + ";" + text[o:]
	}
	return x.reparsesTo(text, d)
}

// c01SourceHeredocSkipped is the same defect hitting the parse of the INPUT
// ("a <<E && let i++\nx\nE\n": the tree under test already has a
// here-document without body followed by the statements `x` and `E`, and
// e.g. Minify prints that tree as text that does not parse). Predicate: a
// file was printed; the input's tree has a here-document redirect (its body
// is missing or was read from a later line) and a TestClause/LetClause statement that ends directly in front of a
// newline of the source; the source with ";" inserted there parses, and that
// tree round trips under the same configuration.
func c01SourceHeredocSkipped(x *c01Ctx, d *c01Div) bool {
	if d.What != "File" {
		return false
	}
	src := x.t.Src
	noBody := false
	var offs []int
	syntax.Walk(d.Root, func(n syntax.Node) bool {
		switch n := n.(type) {
		case *syntax.Redirect:
			// no body, or (when a later newline made the parser read the
			// "body" from the wrong place) any here-document at all
			if n.Op == syntax.Hdoc || n.Op == syntax.DashHdoc {
				noBody = true
			}
		case *syntax.Stmt:
			switch n.Cmd.(type) {
			case *syntax.TestClause, *syntax.LetClause:
				if len(n.Redirs) > 0 || n.Background || n.Coprocess || n.Disown {
					return true
				}
				if o := int(n.Cmd.End().Offset()); o < len(src) && src[o] == '\n' {
					offs = append(offs, o)
				}
			}
		}
		return true
	})
	if !noBody || len(offs) == 0 {
		return false
	}
	sort.Sort(sort.Reverse(sort.IntSlice(offs)))
	for _, o := range offs {
		src = src[:o] + ";" + src[o:]
	}
	f3, err := x.ws.Parse(src, x.lang)
	if err != nil {
		return false
	}
	if d.Simplified {
		syntax.Simplify(f3)
	}
	d3 := x.roundTrip(f3, "File", d.Cfg, nil)
	if d3 == nil {
		return true
	}
	// the printed form of the repaired tree may itself end a line in a let
	// clause or "]]" with the here-document pending: judge it by the
	// printed-text predicate
	if d3.Kind != "reparse" && d3.Kind != "tree" {
		return false
	}
	d3.Root = f3
	return c01PrintedHeredocSkipped(x, d3)
}

// --- SingleLine: pending here-document body written inside the next statement -
//
// Printer defect (SingleLine, an API-only option): after a statement with a
// here-document the next statement is joined to the same line with "; " and
// the pending body is written at the first newline the printer emits. When
// the next statement itself needs a newline (a comment inside an array,
// command substitution or block, or a here-document of its own inside a
// command substitution), the body lands inside that construct:
// "a <<E\nx\nE\na=( # c\n1 )" prints as "a <<E; a=( # c\nx\nE\n\t1)".
//
// Predicate: SingleLine set; the printed node holds a here-document redirect
// followed, later in the source, by a comment or by another here-document;
// the same configuration without SingleLine round trips.
func c01SingleLinePendingHeredoc(x *c01Ctx, d *c01Div) bool {
	if !d.Cfg.Single {
		return false
	}
	var first syntax.Pos
	syntax.Walk(d.Node, func(n syntax.Node) bool {
		if r, ok := n.(*syntax.Redirect); ok && (r.Op == syntax.Hdoc || r.Op == syntax.DashHdoc) && !first.IsValid() {
			first = r.Pos()
		}
		return true
	})
	if !first.IsValid() {
		return false
	}
	later := false
	syntax.Walk(d.Node, func(n syntax.Node) bool {
		switch n := n.(type) {
		case *syntax.Redirect:
			if (n.Op == syntax.Hdoc || n.Op == syntax.DashHdoc) && n.Pos().After(first) {
				later = true
			}
		case *syntax.Comment:
			if n.Pos().After(first) {
				later = true
			}
		}
		return !later
	})
	if !later {
		return false
	}
	cfg := d.Cfg
	cfg.Single = false
	return x.counterfactual(d, cfg, nil)
}

// --- parser: a comment ending in a backslash ---------------------------------
//
// Parser defect (the one recorded for C09 as comment-text-holds-escaped-
// newline): a backslash-newline at the end of a comment is taken as a line
// continuation, so Comment.Text holds "\\\n" and, when the comment follows a
// word, the next line is parsed as more arguments of that command: "a; # c \\\nb"
// is two statements, its printed form "a # c \\\nb" one command `a b`. In a
// shell a comment ends at the newline whatever precedes it.
//
// Predicate: the tree differs or the output does not parse, and the original
// tree has a comment whose text ends in backslash-newline.
func c01CommentEndsInBackslash(x *c01Ctx, d *c01Div) bool {
	found := false
	syntax.Walk(d.Root, func(n syntax.Node) bool {
		if c, ok := n.(*syntax.Comment); ok && strings.HasSuffix(c.Text, "\\\n") {
			found = true
		}
		return !found
	})
	return found
}

// --- pending here-document body written inside a later construct ---------------
//
// Printer defect (any options): the body of a pending here-document is written
// at the first newline the printer emits. When a LATER part of the same line
// is a construct that holds a newline of its own (an array or command
// substitution with a comment or several lines, a command substitution with
// a here-document), that newline is inside the construct and the body lands
// there: "a <<E && a=( # c\n1 )\nx\nE\n" prints as "a <<E && a=( # c\n\\\nx\nE\n\t1)".
// (The parser reads such a body after the line that closes the construct.)
//
// Predicate: the output does not parse because of an unclosed here-document;
// the printed node has a here-document redirect followed later in the source
// by a comment, another here-document or an array; the same tree with its
// here-document redirects removed round trips under the same configuration.
func c01PendingHeredocInsideConstruct(x *c01Ctx, d *c01Div) bool {
	if d.Kind != "reparse" || !strings.Contains(d.Err, "unclosed here-document") {
		return false
	}
	var first syntax.Pos
	syntax.Walk(d.Node, func(n syntax.Node) bool {
		if r, ok := n.(*syntax.Redirect); ok && (r.Op == syntax.Hdoc || r.Op == syntax.DashHdoc) && !first.IsValid() {
			first = r.Pos()
		}
		return true
	})
	if !first.IsValid() {
		return false
	}
	later := false
	syntax.Walk(d.Node, func(n syntax.Node) bool {
		switch n := n.(type) {
		case *syntax.Redirect:
			if (n.Op == syntax.Hdoc || n.Op == syntax.DashHdoc) && n.Pos().After(first) {
				later = true
			}
		case *syntax.Comment:
			if n.Pos().After(first) {
				later = true
			}
		case *syntax.ArrayExpr:
			if n.Pos().After(first) {
				later = true
			}
		}
		return !later
	})
	if !later {
		return false
	}
	return x.counterfactual(d, d.Cfg, func(n syntax.Node) {
		syntax.Walk(n, func(m syntax.Node) bool {
			if st, ok := m.(*syntax.Stmt); ok {
				kept := st.Redirs[:0]
				for _, r := range st.Redirs {
					if r.Op != syntax.Hdoc && r.Op != syntax.DashHdoc {
						kept = append(kept, r)
					}
				}
				st.Redirs = kept
			}
			return true
		})
	})
}

// --- KeepPadding: the here-document delimiter line is padded -------------------
//
// Printer defect (KeepPadding, deprecated option): inside a command
// substitution that is broken over lines, the closing line of a here-document
// gets trailing padding ("E               "), so it no longer ends the body.
//
// Predicate: KeepPadding; unclosed here-document; the output has a line made
// of a word followed by spaces; without KeepPadding the same configuration
// round trips.
func c01KeepPaddingPadsDelimiter(x *c01Ctx, d *c01Div) bool {
	if !d.Cfg.KeepPad || d.Kind != "reparse" || !strings.Contains(d.Err, "unclosed here-document") {
		return false
	}
	padded := false
	for _, l := range strings.Split(d.Out, "\n") {
		if t := strings.TrimRight(l, " "); t != l && t != "" && !strings.ContainsAny(strings.TrimLeft(t, "\t"), " \t") {
			padded = true
		}
	}
	if !padded {
		return false
	}
	cfg := d.Cfg
	cfg.KeepPad = false
	return x.counterfactual(d, cfg, nil)
}
