package checks

import (
	"regexp"
	"strings"
)

// c21Tgt describes what a target denotes in a state (a model of the state
// tables only, no expansion semantics).
type c21TgtInfo struct {
	List    bool     // [@] [*] @ * : denotes a list of elements
	Star    bool     // [*] or *
	Elems   []string // the elements (List), or the one value when Set
	Set     bool     // scalar targets: the element exists
	Special bool     // positional / special parameter
}

func c21TgtOf(st *c21State, tgt string) c21TgtInfo {
	name, sub, hasSub := strings.Cut(tgt, "[")
	sub = strings.TrimSuffix(sub, "]")
	var info c21TgtInfo
	switch name {
	case "@", "*":
		return c21TgtInfo{List: true, Star: name == "*", Elems: st.List, Special: true}
	case "1", "2":
		info.Special = true
		if st.Kind == "pos" {
			if i := int(name[0] - '1'); i < len(st.List) {
				info.Set, info.Elems = true, []string{st.List[i]}
			}
		}
		return info
	}
	if hasSub && (sub == "@" || sub == "*") {
		info.List, info.Star = true, sub == "*"
		switch {
		case name == "x" && st.Scalar != nil:
			info.Elems = []string{*st.Scalar}
		case name == "a" && st.Kind == "indexed":
			info.Elems = st.List
		case name == "A" && st.Kind == "assoc":
			// bash lists k before j for these two keys
			for _, k := range []string{"k", "j"} {
				if v, ok := st.Map[k]; ok {
					info.Elems = append(info.Elems, v)
				}
			}
		}
		return info
	}
	if !hasSub {
		sub = "0"
	}
	switch {
	case name == "x" && st.Scalar != nil && sub == "0":
		info.Set, info.Elems = true, []string{*st.Scalar}
	case name == "a" && st.Kind == "indexed":
		idx := map[string]int{"0": 0, "1": 1, "9": 9}
		i, ok := idx[sub]
		if sub == "-1" {
			if len(st.List) == 0 {
				return info
			}
			i, ok = len(st.List)-1, true
			if st.Indexes != nil {
				i = st.Indexes[len(st.Indexes)-1]
			}
		}
		if !ok {
			return info
		}
		if st.Indexes == nil {
			if i < len(st.List) {
				info.Set, info.Elems = true, []string{st.List[i]}
			}
		} else {
			for j, ix := range st.Indexes {
				if ix == i {
					info.Set, info.Elems = true, []string{st.List[j]}
				}
			}
		}
	case name == "A" && st.Kind == "assoc":
		if v, ok := st.Map[sub]; ok {
			info.Set, info.Elems = true, []string{v}
		}
	}
	return info
}

func c21Status(r string) string {
	s, _, _ := strings.Cut(r, ":")
	return s
}

// c21ReplParts splits a replace operator into anchor/all marker, pattern and
// replacement.
func c21ReplParts(op string) (mark, pat, repl string, hasRepl bool) {
	rest := strings.TrimPrefix(op, "/")
	switch {
	case strings.HasPrefix(rest, "/"), strings.HasPrefix(rest, "#"), strings.HasPrefix(rest, "%"):
		mark, rest = rest[:1], rest[1:]
	}
	pat, repl, hasRepl = strings.Cut(rest, "/")
	return
}

// c21ReplValue is the text a replacement word stands for: the expansion of
// an argument word of c21ArgWords, the text itself for the literal words.
func c21ReplValue(repl string) string {
	if v, ok := c21ArgWordVal(repl); ok {
		return v
	}
	return repl
}

// c21FieldsText joins the fields of a result "<status>:<count><f1><f2>.."
// with single blanks (fields of the cases this is used for hold no '<' '>').
func c21FieldsText(r string) string {
	_, rest, _ := strings.Cut(r, ":")
	i := strings.IndexByte(rest, '<')
	if i < 0 {
		return ""
	}
	return strings.Join(strings.Fields(strings.NewReplacer("><", " ", "<", "", ">", "").Replace(rest[i:])), " ")
}

func c21OnlyStars(p string) bool { return p != "" && strings.Trim(p, "*") == "" }

// c21IndirValue is the text the indirection ${!tgt} goes through.
func c21IndirValue(st *c21State, tgt string) (string, bool) {
	for _, kv := range c21IndirVars {
		if kv[0] == tgt {
			return kv[1], true
		}
	}
	if tgt == "1" && st.Kind == "pos" && len(st.List) > 0 {
		return st.List[0], true
	}
	return "", false
}

var c21IndirNameRx = regexp.MustCompile(`^([A-Za-z_][A-Za-z0-9_]*|[0-9]+|[@*#?$!-])(\[[^\]]+\])?$`)

// c21ValidIndirName: the texts bash accepts as the value of the variable an
// indirection goes through (a name, a positional or special parameter, with
// an optional subscript).
func c21ValidIndirName(v string) bool { return c21IndirNameRx.MatchString(v) }

func c21ClassNondet(t c21Case) string {
	if t.Q && t.Pre == "" && t.Tgt == "!A[@]" && t.State == "A:two" {
		return "assoc-keys-quoted-order-nondeterministic"
	}
	return ""
}

// c21Class names the divergence family of a failing case, or "" when it
// matches none of the recorded families. sh is the interpreter's (or
// expand.Fields') result, bash is bash's; both "<status>:<count><fields>".
func c21Class(t c21Case, sh, bash string) string {
	st := c21StateByID[t.State]
	opk := c21OpKind(t.Pre, t.Op)
	if t.Pre == "!" {
		opk = c21OpKind("", t.Op)
	}
	listing := t.Pre == "" && strings.HasPrefix(t.Tgt, "!")
	info := c21TgtOf(st, t.Tgt)
	shOK, bashOK := c21Status(sh) == "0", c21Status(bash) == "0"
	// the interpreter's result for the same target without the operator
	noop := func() string {
		u := t
		u.Op = ""
		if u.Pre == "#" {
			u.Pre = ""
		}
		return c2xRun(c21InterpPre, u.setup()+"__f "+u.words()+"\n", nil)
	}

	switch {
	case listing:
		switch {
		case strings.HasSuffix(t.Tgt, "@") && t.Q && sh == "0:1<>" && bash == "0:0":
			// "${!prefix@}" without matching names: one empty field
			return "names-prefix-at-quoted-no-match-yields-empty-field"
		case st.Kind == "scalar" && strings.HasPrefix(t.Tgt, "!x["):
			// bash lists 0 for a set scalar and nothing for an unset one
			return "keys-of-scalar"
		}
		return ""

	// ---- indirection ${!name op}
	case t.Pre == "!":
		if v, ok := c21IndirValue(st, t.Tgt); ok && !c21ValidIndirName(v) && !bashOK && shOK {
			// bash: "invalid variable name"; the interpreter expands to nothing
			return "indirect-through-invalid-name-no-error"
		}
		if t.Op != "" && sh == noop() {
			return "indirect-operator-ignored"
		}
		if v, ok := c21IndirValue(st, t.Tgt); ok && t.Op == "" && (strings.Contains(v, "[") || v == "@") && shOK && bashOK {
			// the text is looked up as a plain variable name
			return "indirect-to-subscripted-or-list-name-not-resolved"
		}
		if t.Tgt == "1" && t.Op == "" && t.State == "@:none" && sh == "1:" && bashOK {
			return "indirect-through-unset-positional-fails"
		}
		return ""

	// ---- "${x[@]...}" of a scalar with an empty result
	case st.Kind == "scalar" && t.Tgt == "x[@]" && t.Pre == "" && t.Q && len(info.Elems) == 1 && sh == "0:1<>" && bash == "0:0":
		// bash drops the field, as for "$@" without parameters
		return "scalar-at-subscript-quoted-empty-result-keeps-field"

	// ---- ${a[-1]} on an empty array
	case t.Tgt == "a[-1]" && t.State == "a:none" && sh == "0:":
		// bash reports "bad array subscript" and goes on with an empty
		// expansion; the interpreter abandons the command with status 0
		return "negative-subscript-on-empty-array-abandons-command"

	// ---- replacement
	case opk == "replace":
		mark, pat, repl, _ := c21ReplParts(t.Op)
		switch {
		case (mark == "#" || mark == "%") && shOK && bashOK && sh == noop():
			// ${x/#p/r} ${x/%p/r}: the anchor is taken as part of the pattern
			return "replace-anchor-unsupported"
		case strings.Contains(repl, "&") && strings.Contains(sh, "&") && !strings.Contains(bash, "&"):
			// bash 5.2 (patsub_replacement on) replaces & by the match
			return "replace-ampersand-literal"
		case st.Kind == "assoc" && info.List && !t.Q && len(st.Map) > 1 && shOK && bashOK:
			return "assoc-unquoted-list-op-on-joined-string"
		case !info.List && !info.Set && c21OnlyStars(pat) && c21ReplValue(repl) != "" && mark != "#" && mark != "%" &&
			(bash == "0:0" || bash == "0:1<>") && c21FieldsText(sh) == strings.Join(strings.Fields(c21ReplValue(repl)), " "):
			// sh's fields are the replacement's text (split at blanks when unquoted)
			return "replace-on-unset-inserts-replacement"
		}

	// ---- @ operators
	case opk == "at":
		switch {
		case t.Op == "@Q" && len(info.Elems) == 0 && strings.Contains(sh, "<''>") && (bash == "0:0" || bash == "0:1<>"):
			return "atQ-on-unset-yields-empty-quotes"
		case t.Op == "@a" && (info.List || info.Special):
			return "at-a-on-list-or-special-parameter"

		case info.List && strings.Contains("@Q@U@L@u", t.Op) && shOK && bashOK:
			// applied to the joined string (unquoted) or not at all (quoted)
			return "list-at-operator-not-elementwise"
		}

	case opk == "length":
		if st.Kind == "assoc" && info.List && len(st.Map) > 1 && sh == "0:1<1>" {
			return "assoc-unquoted-list-op-on-joined-string"
		}

	case opk == "remove", opk == "case":
		if pat := strings.TrimLeft(t.Op, "^,"); opk == "case" && pat == "''" && shOK && bashOK && bash == noop() {
			// ${x^''}: a quoted empty pattern matches no character for bash;
			// the interpreter reads it as an omitted pattern (sh's result is
			// the one it gives without the pattern)
			u := t
			u.Op = t.Op[:len(t.Op)-len(pat)]
			if sh == c2xRun(c21InterpPre, u.setup()+"__f "+u.words()+"\n", nil) {
				return "case-conversion-quoted-empty-pattern-read-as-omitted"
			}
		}
		if st.Kind == "assoc" && info.List && !t.Q && len(st.Map) > 1 && shOK && bashOK {
			return "assoc-unquoted-list-op-on-joined-string"
		}

	case opk == "slice":
		_, l, hasLen := strings.Cut(t.Op[1:], ":")
		switch {
		case hasLen && strings.HasPrefix(strings.TrimSpace(l), "-") && !bashOK && shOK:
			// bash: "substring expression < 0"
			return "slice-negative-length-no-error"

		}

	case opk == "assign":
		if (info.List || info.Special) && !bashOK && shOK {
			// bash: "cannot assign in this way"
			return "assign-to-unassignable-parameter-no-error"
		}
		fallthrough
	case opk == "default", opk == "alternate", opk == "error":
		arg := strings.TrimLeft(t.Op, ":-=+?")
		switch {
		case !t.Q && strings.ContainsAny(arg, `"'`) && shOK && bashOK:
			// ${x:-"a b"}: the quotes inside the word do not protect it
			// from field splitting
			return "unquoted-default-word-quotes-lost"
		case t.Q && strings.Contains(arg, "'") && shOK && bashOK && sh == strings.ReplaceAll(bash, "'", ""):
			// "${x:-'a b'}": inside double quotes the single quotes are
			// literal characters for bash
			return "single-quotes-in-quoted-default-word-removed"
		case info.List && t.Q && sh == noop():
			// "${@:+w}" "${a[@]:-w}" "${*:?w}": the operator is not applied
			return "quoted-list-default-operator-ignored"
		case info.List && !t.Q && len(info.Elems) == 0 && !strings.HasPrefix(t.Op, ":") &&
			(strings.HasPrefix(t.Op, "+") && bash == "0:0" || !strings.HasPrefix(t.Op, "+") && sh == noop()):
			// bash takes $@ / ${a[@]} without elements as unset
			return "empty-list-counts-as-set"
		}
	}
	return ""
}
