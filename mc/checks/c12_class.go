package checks

import (
	"strings"

	"mvdan.cc/sh/v3/syntax"
)

var c12Reserved = map[string]bool{
	"if": true, "then": true, "elif": true, "else": true, "fi": true, "while": true, "until": true, "do": true, "done": true,
	"for": true, "case": true, "esac": true, "in": true, "{": true, "}": true, "!": true,
}

// c12CmdStartAfter lists the tokens after which the next token is in command
// position.
var c12CmdStartAfter = map[string]bool{
	"\n": true, ";": true, "&": true, "&&": true, "||": true, "|": true, "(": true, ")": true, "{": true, "}": true, "!": true, ";;": true,
	"if": true, "then": true, "elif": true, "else": true, "while": true, "until": true, "do": true, "fi": true, "done": true, "esac": true,
}

func c12IsRedir(t string) bool {
	if _, ok := c12HeredocBody[t]; ok {
		return true
	}
	t = strings.TrimLeft(t, "0123456789")
	return strings.HasPrefix(t, ">") || strings.HasPrefix(t, "<")
}

// c12BangNotFollowedByCommand: some `!` token is followed by the end of the
// input, an operator, or another `!`.
func c12BangNotFollowedByCommand(toks []string) bool {
	for i, t := range toks {
		if t != "!" {
			continue
		}
		if i+1 == len(toks) {
			return true
		}
		switch toks[i+1] {
		case "\n", ";", "&", "&&", "||", "|", ")", "}", ";;", "!", "then", "do", "else", "elif", "fi", "done", "esac":
			return true
		}
	}
	return false
}

// c12ReallyUnclosedHeredoc: the parser reports "unclosed here-document `D`"
// and the source indeed has a `<<` operator but no later line that consists
// of D (leading tabs ignored, as for `<<-`).
func c12ReallyUnclosedHeredoc(src, perr string) bool {
	_, rest, ok := strings.Cut(perr, "unclosed here-document `")
	if !ok {
		return false
	}
	delim, _, ok := strings.Cut(rest, "`")
	if !ok {
		return false
	}
	i := strings.Index(src, "<<")
	if i < 0 {
		return false
	}
	lines := strings.Split(src[i:], "\n")
	for _, ln := range lines[1:] {
		if strings.TrimLeft(ln, "\t") == delim {
			return false
		}
	}
	return true
}

// c12Intentional returns the name of the documented intentional difference
// the divergence matches, or "". The names refer to the repository's own
// tables (syntax/parser_test.go, entries marked flipConfirm...).
func c12Intentional(lang string, toks []string, src, perr string, shellAccepts bool) string {
	switch {
	// errCase("! !", ..., flipConfirm(LangBash)) and errCase("! ! foo", ...):
	// "bash allows lone `!`, unlike dash, mksh, and us."
	case lang == "bash" && shellAccepts && c12BangNotFollowedByCommand(toks) &&
		(strings.HasSuffix(perr, "`!` cannot form a statement alone") || strings.HasSuffix(perr, "cannot negate a command multiple times")):
		return "lone_bang_bash"
	// errCase("<<EOF", ..., flipConfirmUnclosedHeredoc): "The real shells which
	// allow unclosed heredocs."
	case shellAccepts && c12ReallyUnclosedHeredoc(src, perr):
		return "unclosed_heredoc"
	}
	return ""
}

// c12FuncBodies reports what kinds of function bodies the parser accepted in
// src: negated = some body is a negated statement (`f() ! { a; }`); simple =
// some body is not a compound command (a simple command, redirections only,
// or another function declaration).
func c12FuncBodies(lang, src string) (negated, simple bool) {
	v := syntax.LangBash
	if lang == "posix" {
		v = syntax.LangPOSIX
	}
	f, err := syntax.NewParser(syntax.Variant(v)).Parse(strings.NewReader(src), "")
	if err != nil {
		return false, false
	}
	syntax.Walk(f, func(n syntax.Node) bool {
		if fd, ok := n.(*syntax.FuncDecl); ok && fd.Body != nil {
			// the parser lets the body extend over a following pipe/&&/||
			// list: look at the first command of that list
			b := fd.Body
			for {
				if b.Negated {
					negated = true
				}
				bc, ok := b.Cmd.(*syntax.BinaryCmd)
				if !ok || bc.X == nil {
					break
				}
				b = bc.X
			}
			switch b.Cmd.(type) {
			case nil, *syntax.CallExpr, *syntax.FuncDecl:
				simple = true
			}
		}
		return true
	})
	return negated, simple
}

// c12ForNameNewlineThen: the tokens contain `for`, one word, one or more
// newline tokens and then tok.
func c12ForNameNewlineThen(toks []string, tok string) bool {
	for i := 0; i+3 < len(toks); i++ {
		if toks[i] != "for" || toks[i+2] != "\n" {
			continue
		}
		j := i + 2
		for j < len(toks) && toks[j] == "\n" {
			j++
		}
		if j < len(toks) && toks[j] == tok {
			return true
		}
	}
	return false
}

// c12KeywordCalls returns the set of reserved words that the parser turned
// into the name of a simple command or of a function in src.
func c12KeywordCalls(lang, src string) []string {
	v := syntax.LangBash
	if lang == "posix" {
		v = syntax.LangPOSIX
	}
	f, err := syntax.NewParser(syntax.Variant(v)).Parse(strings.NewReader(src), "")
	if err != nil {
		return nil
	}
	found := map[string]bool{}
	syntax.Walk(f, func(n syntax.Node) bool {
		switch x := n.(type) {
		case *syntax.Stmt:
			// a word that follows a leading redirection is a plain command
			// name for the shells too (">f !" runs the command `!`): skip
			if ce, ok := x.Cmd.(*syntax.CallExpr); ok && len(ce.Args) > 0 && len(ce.Assigns) == 0 {
				lead := false
				for _, r := range x.Redirs {
					if r.Pos().Offset() < ce.Args[0].Pos().Offset() {
						lead = true
					}
				}
				if lit := ce.Args[0].Lit(); c12Reserved[lit] && !lead {
					found[lit] = true
				}
			}
		case *syntax.FuncDecl:
			if x.Name != nil && c12Reserved[x.Name.Value] {
				found[x.Name.Value] = true
			}
		}
		return true
	})
	var out []string
	for _, k := range []string{"else", "in", "if", "then", "elif", "fi", "while", "until", "do", "done", "for", "case", "esac", "{", "}", "!"} {
		if found[k] {
			out = append(out, k)
		}
	}
	return out
}

// c12KeywordAfterLeadingRedirect: at some command start there is a run of
// one or more redirection tokens directly followed by a reserved word.
func c12KeywordAfterLeadingRedirect(toks []string) bool {
	for i := 0; i < len(toks); i++ {
		if !c12IsRedir(toks[i]) || !(i == 0 || c12CmdStartAfter[toks[i-1]]) {
			continue
		}
		j := i
		for j < len(toks) && c12IsRedir(toks[j]) {
			j++
		}
		if j < len(toks) && c12Reserved[toks[j]] {
			return true
		}
	}
	return false
}

// c12HeredocPendingAtForWordlistNewline: a here-document token is followed,
// with no newline token in between, by `for NAME in WORD...` whose word list
// is ended by a newline token (dash then reads the here-document body as the
// loop's next token).
func c12HeredocPendingAtForWordlistNewline(toks []string) bool {
	pending := false
	for i := 0; i < len(toks); i++ {
		t := toks[i]
		if t == "\n" {
			pending = false
			continue
		}
		if _, ok := c12HeredocBody[t]; ok {
			pending = true
		}
		if t != "for" || i+2 >= len(toks) || toks[i+2] != "in" {
			continue
		}
		j := i + 3
		for j < len(toks) && toks[j] != "\n" && toks[j] != ";" && toks[j] != "&" && toks[j] != "|" && toks[j] != "&&" && toks[j] != "||" && toks[j] != "(" && toks[j] != ")" && toks[j] != ";;" {
			if _, ok := c12HeredocBody[toks[j]]; ok {
				pending = true
			}
			j++
		}
		if j < len(toks) && toks[j] == "\n" && pending {
			return true
		}
	}
	return false
}

func c12IsWordTok(t string) bool {
	if c12Reserved[t] || c12IsRedir(t) {
		return false
	}
	switch t {
	case "\n", ";", "&", "|", "&&", "||", "(", ")", ";;":
		return false
	}
	return true
}

// c12CasePatternClose: toks[j] is a `)` that closes a case pattern list
// (words separated by `|`, optionally opened by `(`, after `in`, `;;` or a
// newline that follows one of those).
func c12CasePatternClose(toks []string, j int) bool {
	if toks[j] != ")" {
		return false
	}
	k := j - 1
	if k < 0 || !c12IsWordTok(toks[k]) {
		return false
	}
	for k >= 0 && (c12IsWordTok(toks[k]) || toks[k] == "|") {
		k--
	}
	if k >= 0 && toks[k] == "(" {
		k--
	}
	for k >= 0 && toks[k] == "\n" {
		k--
	}
	return k >= 0 && (toks[k] == "in" || toks[k] == ";;")
}

// c12HeredocPendingIntoCaseItem: a here-document token is still pending (no
// newline token since) when a case item starts (its pattern list closes) and
// the next newline token comes after that.
func c12HeredocPendingIntoCaseItem(toks []string) bool {
	pending := false
	entered := false
	for j, t := range toks {
		switch {
		case t == "\n":
			if pending && entered {
				return true
			}
			pending, entered = false, false
		case c12HeredocBody[t] != "":
			pending = true
		case pending && c12CasePatternClose(toks, j):
			entered = true
		}
	}
	return false
}

// c12HeredocPendingIntoSubshell: a here-document token is still pending (no
// newline token since) when a subshell opens (`(` in command position, not
// `( )`), and the next newline token comes before that subshell closes.
func c12HeredocPendingIntoSubshell(toks []string) bool {
	pending := false
	depth := 0
	for j, t := range toks {
		switch {
		case t == "\n":
			if pending && depth > 0 {
				return true
			}
			pending, depth = false, 0
		case c12HeredocBody[t] != "":
			if depth == 0 {
				pending = true
			}
		case t == "(":
			if depth > 0 {
				depth++
			} else if pending && (j == 0 || c12CmdStartAfter[toks[j-1]]) && j+1 < len(toks) && toks[j+1] != ")" {
				depth = 1
			}
		case t == ")":
			if depth > 0 {
				depth--
			}
		}
	}
	return false
}

// c12InsideCase: some `case` token precedes position i.
func c12InsideCase(toks []string, i int) bool {
	for _, t := range toks[:i] {
		if t == "case" {
			return true
		}
	}
	return false
}

// c12ForInCaseQuirk: after a `case` token there is `for NAME`, one or more
// newline tokens and `in` (newlineIn), or `for NAME in` with `esac` in the
// word list (esacWord).
func c12ForInCaseQuirk(toks []string) (newlineIn, esacWord bool) {
	for i := 0; i+2 < len(toks); i++ {
		if toks[i] != "for" || !c12InsideCase(toks, i) {
			continue
		}
		j := i + 2
		for j < len(toks) && toks[j] == "\n" {
			j++
		}
		if j < len(toks) && toks[j] == "in" {
			if j > i+2 {
				newlineIn = true
			}
			for k := j + 1; k < len(toks) && toks[k] != ";" && toks[k] != "\n"; k++ {
				if toks[k] == "esac" {
					esacWord = true
				}
			}
		}
	}
	return
}

var c12CompoundEnd = map[string]bool{"}": true, ")": true, "fi": true, "done": true, "esac": true}

// c12ReservedRightAfterCompoundRedirect: a compound command end (`}`, `)`,
// fi, done, esac) is followed by one or more redirection tokens and then
// directly by a reserved word.
func c12ReservedRightAfterCompoundRedirect(toks []string) bool {
	for i := 1; i < len(toks); i++ {
		if !c12IsRedir(toks[i]) || !c12CompoundEnd[toks[i-1]] {
			continue
		}
		j := i
		for j < len(toks) && c12IsRedir(toks[j]) {
			j++
		}
		if j < len(toks) && c12Reserved[toks[j]] {
			return true
		}
	}
	return false
}

// c12Class names the narrow family of a divergence that is not intentional
// ("" = unclassified).
func c12Class(lang string, toks []string, src, perr string, shellAccepts bool) string {
	if perr == "" && !shellAccepts {
		// the parser accepted: which reserved words did it take for command names?
		kws := c12KeywordCalls(lang, src)
		if len(kws) > 0 {
			only := true
			for _, k := range kws {
				if k != "else" && k != "in" {
					only = false
				}
			}
			if only {
				return "accepts-else-or-in-in-command-position"
			}
			return ""
		}
		negated, simple := c12FuncBodies(lang, src)
		if negated {
			return "accepts-negated-function-body"
		}
		if lang == "bash" && simple {
			return "bash-accepts-function-body-that-is-not-a-compound-command"
		}
		if c12ReservedRightAfterCompoundRedirect(toks) {
			return "accepts-reserved-word-right-after-redirect-of-compound-command"
		}
		if lang == "posix" && c12HeredocPendingAtForWordlistNewline(toks) {
			return "dash-rejects-heredoc-pending-at-for-wordlist-newline"
		}
		if lang == "bash" {
			newlineIn, esacWord := c12ForInCaseQuirk(toks)
			if esacWord {
				return "bash-rejects-esac-in-for-wordlist-inside-case"
			}
			if newlineIn {
				return "bash-rejects-for-name-newline-in-inside-case"
			}
		}
		return ""
	}
	if perr != "" && shellAccepts {
		if c12KeywordAfterLeadingRedirect(toks) {
			return "rejects-reserved-word-after-leading-redirect"
		}
		if c12HeredocPendingIntoCaseItem(toks) {
			return "rejects-heredoc-pending-into-case-item"
		}
		if c12HeredocPendingIntoSubshell(toks) {
			return "rejects-heredoc-pending-into-subshell"
		}
		if strings.Contains(perr, "`for foo` must be followed by") {
			if lang == "posix" && c12ForNameNewlineThen(toks, ";") {
				return "posix-rejects-for-name-newline-semicolon"
			}
			if lang == "bash" && c12ForNameNewlineThen(toks, "{") {
				return "bash-rejects-for-name-newline-brace-group"
			}
		}
	}
	return ""
}
