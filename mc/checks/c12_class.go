package checks

import (
	"strings"

	"mvdan.cc/sh/v3/syntax"
)

var c12Reserved = map[string]bool{
	"if": true, "then": true, "elif": true, "else": true, "fi": true, "while": true, "until": true, "do": true, "done": true,
	"for": true, "case": true, "esac": true, "in": true, "{": true, "}": true, "!": true,
}

// c12CmdStartAfter lists the tokens after which the next token is in command
// position.
var c12CmdStartAfter = map[string]bool{
	"\n": true, ";": true, "&": true, "&&": true, "||": true, "|": true, "(": true, ")": true, "{": true, "}": true, "!": true, ";;": true,
	"if": true, "then": true, "elif": true, "else": true, "while": true, "until": true, "do": true, "fi": true, "done": true, "esac": true,
}

func c12IsRedir(t string) bool {
	if _, ok := c12HeredocBody[t]; ok {
		return true
	}
	t = strings.TrimLeft(t, "0123456789")
	return strings.HasPrefix(t, ">") || strings.HasPrefix(t, "<")
}

// c12BangNotFollowedByCommand: some `!` token is followed by the end of the
// input, an operator, or another `!`.
func c12BangNotFollowedByCommand(toks []string) bool {
	for i, t := range toks {
		if t != "!" {
			continue
		}
		if i+1 == len(toks) {
			return true
		}
		switch toks[i+1] {
		case "\n", ";", "&", "&&", "||", "|", ")", "}", ";;", "!", "then", "do", "else", "elif", "fi", "done", "esac":
			return true
		}
	}
	return false
}

// c12Intentional returns the name of the documented intentional difference
// the divergence matches, or "". The names refer to the repository's own
// tables (syntax/parser_test.go, entries marked flipConfirm...).
func c12Intentional(lang string, toks []string, src, perr string, shellAccepts bool) string {
	switch {
	// errCase("! !", ..., flipConfirm(LangBash)) and errCase("! ! foo", ...):
	// "bash allows lone `!`, unlike dash, mksh, and us."
	case lang == "bash" && shellAccepts && c12BangNotFollowedByCommand(toks) &&
		(strings.HasSuffix(perr, "`!` cannot form a statement alone") || strings.HasSuffix(perr, "cannot negate a command multiple times")):
		return "lone_bang_bash"
	// errCase("<<EOF", ..., flipConfirmUnclosedHeredoc): "The real shells which
	// allow unclosed heredocs."
	case shellAccepts && strings.Contains(perr, "unclosed here-document") && strings.Contains(src, "<<"):
		return "unclosed_heredoc"
	}
	return ""
}

// c12FuncBodies reports what kinds of function bodies the parser accepted in
// src: negated = some body is a negated statement (`f() ! { a; }`); simple =
// some body is not a compound command (a simple command, redirections only,
// or another function declaration).
func c12FuncBodies(lang, src string) (negated, simple bool) {
	v := syntax.LangBash
	if lang == "posix" {
		v = syntax.LangPOSIX
	}
	f, err := syntax.NewParser(syntax.Variant(v)).Parse(strings.NewReader(src), "")
	if err != nil {
		return false, false
	}
	syntax.Walk(f, func(n syntax.Node) bool {
		if fd, ok := n.(*syntax.FuncDecl); ok && fd.Body != nil {
			if fd.Body.Negated {
				negated = true
			}
			switch fd.Body.Cmd.(type) {
			case nil, *syntax.CallExpr, *syntax.FuncDecl:
				simple = true
			}
		}
		return true
	})
	return negated, simple
}

// c12ForNameNewlineThen: the tokens contain `for`, one word, one or more
// newline tokens and then tok.
func c12ForNameNewlineThen(toks []string, tok string) bool {
	for i := 0; i+3 < len(toks); i++ {
		if toks[i] != "for" || toks[i+2] != "\n" {
			continue
		}
		j := i + 2
		for j < len(toks) && toks[j] == "\n" {
			j++
		}
		if j < len(toks) && toks[j] == tok {
			return true
		}
	}
	return false
}

// c12KeywordCalls returns the set of reserved words that the parser turned
// into the name of a simple command or of a function in src.
func c12KeywordCalls(lang, src string) []string {
	v := syntax.LangBash
	if lang == "posix" {
		v = syntax.LangPOSIX
	}
	f, err := syntax.NewParser(syntax.Variant(v)).Parse(strings.NewReader(src), "")
	if err != nil {
		return nil
	}
	found := map[string]bool{}
	syntax.Walk(f, func(n syntax.Node) bool {
		switch x := n.(type) {
		case *syntax.CallExpr:
			if len(x.Args) > 0 && len(x.Assigns) == 0 {
				if lit := x.Args[0].Lit(); c12Reserved[lit] {
					found[lit] = true
				}
			}
		case *syntax.FuncDecl:
			if x.Name != nil && c12Reserved[x.Name.Value] {
				found[x.Name.Value] = true
			}
		}
		return true
	})
	var out []string
	for _, k := range []string{"else", "in", "if", "then", "elif", "fi", "while", "until", "do", "done", "for", "case", "esac", "{", "}", "!"} {
		if found[k] {
			out = append(out, k)
		}
	}
	return out
}

// c12KeywordAfterLeadingRedirect: at some command start there is a run of
// one or more redirection tokens directly followed by a reserved word.
func c12KeywordAfterLeadingRedirect(toks []string) bool {
	for i := 0; i < len(toks); i++ {
		if !c12IsRedir(toks[i]) || !(i == 0 || c12CmdStartAfter[toks[i-1]]) {
			continue
		}
		j := i
		for j < len(toks) && c12IsRedir(toks[j]) {
			j++
		}
		if j < len(toks) && c12Reserved[toks[j]] {
			return true
		}
	}
	return false
}

var c12CompoundEnd = map[string]bool{"}": true, ")": true, "fi": true, "done": true, "esac": true}

// c12ReservedRightAfterCompoundRedirect: a compound command end (`}`, `)`,
// fi, done, esac) is followed by one or more redirection tokens and then
// directly by a reserved word.
func c12ReservedRightAfterCompoundRedirect(toks []string) bool {
	for i := 1; i < len(toks); i++ {
		if !c12IsRedir(toks[i]) || !c12CompoundEnd[toks[i-1]] {
			continue
		}
		j := i
		for j < len(toks) && c12IsRedir(toks[j]) {
			j++
		}
		if j < len(toks) && c12Reserved[toks[j]] {
			return true
		}
	}
	return false
}

// c12Class names the narrow family of a divergence that is not intentional
// ("" = unclassified).
func c12Class(lang string, toks []string, src, perr string, shellAccepts bool) string {
	if perr == "" && !shellAccepts {
		// the parser accepted: which reserved words did it take for command names?
		kws := c12KeywordCalls(lang, src)
		if len(kws) > 0 {
			only := true
			for _, k := range kws {
				if k != "else" && k != "in" {
					only = false
				}
			}
			if only {
				return "accepts-else-or-in-in-command-position"
			}
			return ""
		}
		negated, simple := c12FuncBodies(lang, src)
		if negated {
			return "accepts-negated-function-body"
		}
		if lang == "bash" && simple {
			return "bash-accepts-function-body-that-is-not-a-compound-command"
		}
		if c12ReservedRightAfterCompoundRedirect(toks) {
			return "accepts-reserved-word-right-after-redirect-of-compound-command"
		}
		return ""
	}
	if perr != "" && shellAccepts {
		if c12KeywordAfterLeadingRedirect(toks) {
			return "rejects-reserved-word-after-leading-redirect"
		}
		if strings.Contains(perr, "`for foo` must be followed by") {
			if lang == "posix" && c12ForNameNewlineThen(toks, ";") {
				return "posix-rejects-for-name-newline-semicolon"
			}
			if lang == "bash" && c12ForNameNewlineThen(toks, "{") {
				return "bash-rejects-for-name-newline-brace-group"
			}
		}
	}
	return ""
}
