package checks

// c12Intentional returns the name of the documented intentional difference
// the divergence matches, or "".
func c12Intentional(lang string, toks []string, src, perr string, shellAccepts bool) string {
	return ""
}

// c12Class names the narrow family of a divergence that is not intentional.
func c12Class(lang string, toks []string, src, perr string, shellAccepts bool) string {
	return ""
}
