package checks

import (
	"mvdan.cc/sh/v3/syntax"
)

// c03Classify names the narrow family a failure belongs to, or "".
func c03Classify(t c03Case, f *syntax.File, text string, diffs []string, o *c03Orig, gotB, gotI c03Res) string {
	return ""
}
