package checks

import (
	"regexp"
	"strings"

	"mvdan.cc/sh/v3/syntax"
)

// Classes of C03 failures. Each predicate looks at the syntactic shape of the
// original program, the printer options common to all configurations that
// produce the offending text, and the direction of the divergence. Anything
// else stays unclassified.

// c03BashLineAbort matches the diagnostics of the bash errors that make a
// non-interactive bash give up the rest of the command line it is executing
// (it jumps back to the reader, so `a; b` and `a⏎b` differ after such an
// error in a).
var c03BashLineAbort = regexp.MustCompile(`invalid indirect expansion|bad substitution|invalid variable name|syntax error in expression|division by 0|syntax error: operand expected|syntax error: invalid arithmetic operator|value too great for base|invalid arithmetic base|invalid number|unbound variable|bad array subscript|expression recursion level exceeded|attempted assignment to non-variable|invalid name for|exponent less than 0|expression expected|error token is|cannot assign list to array member|: parameter null or not set|: parameter not set`)

func c03HasOnly(t c03Case, opt string) bool {
	for _, o := range strings.Split(t.Only, ",") {
		if o == opt {
			return true
		}
	}
	return false
}

func c03Classify(t c03Case, f *syntax.File, text string, diffs []string, o *c03Orig, gotB, gotI c03Res) string {
	onlyBash := len(diffs) == 1 && diffs[0] == "bash"
	switch {
	case onlyBash && strings.Contains(t.Src, "\r") && !strings.Contains(text, "\r"):
		// the parser reads CR LF (and CR before blanks/escaped newlines) as a
		// line end; bash takes the CR as part of a word
		return "carriage-return-dropped"
	case onlyBash && c03HasOnly(t, "mn") && c03ParamBeforeBrace(f):
		return "minify-unbraces-parameter-before-brace-expansion"
	case c03ArithSigns(f, false):
		return "arithmetic-unary-sign-fused-with-operand-sign"
	case c03ArithSigns(f, true) && (c03HasOnly(t, "mn") || c03ArithSignsCompactContext(f)):
		return "arithmetic-compact-binary-sign-fused-with-operand-sign"
	case len(diffs) == 1 && diffs[0] == "interp" && c03PrintsFunctionSource(f):
		// interp's declare -f / type print the body as laid out in the source
		return "interp-function-listing-reflects-source-layout"
	case onlyBash && c03HasOnly(t, "sl") && c03ParseTimeSwitch(f, text):
		return "single-line-joins-parse-time-switch-with-its-use"
	case onlyBash && c03HeredocLineContinuesInsideSubst(f):
		return "bash52-drops-commands-after-heredoc-line-inside-substitution"
	case onlyBash && c03BackquotedHeredocBodyOutside(f):
		return "backquoted-heredoc-with-body-after-the-line"
	case c03HasOnly(t, "sl") && c03NestedBackgroundBeforeSibling(f):
		return "single-line-separator-lost-after-nested-background"
	case strings.Contains(t.Src, "LINENO"):
		// formatting moves commands to other lines; $LINENO shows it
		return "observes-line-numbers"
	case c03HasOnly(t, "sl") && c03HeredocInsideHeredocBody(f):
		return "single-line-nested-heredoc-in-heredoc-body"
	case onlyBash && gotB.Flag == "" && c03PrefixRelated(o.bash.Out, gotB.Out) &&
		(c03BashLineAbort.MatchString(o.bash.errOut) || c03BashLineAbort.MatchString(gotB.errOut)) &&
		c03SameLineJoinChanged(t.Src, text, o.bash.errOut, gotB.errOut):
		return "bash-abandons-rest-of-line-after-expansion-error"
	}
	return ""
}

// c03PrefixRelated: one output is a prefix of the other (commands after the
// failing one ran in one form and not in the other; with equal outputs only
// the final status differs).
func c03PrefixRelated(a, b string) bool {
	return strings.HasPrefix(a, b) || strings.HasPrefix(b, a)
}

// c03SameLineJoinChanged: both runs report the same kind of error first (the
// failing command itself behaves the same; only what bash does with the rest
// of its line differs).
func c03SameLineJoinChanged(src, text, errA, errB string) bool {
	a, b := c03BashLineAbort.FindString(errA), c03BashLineAbort.FindString(errB)
	return a != "" && a == b
}

// c03ParamBeforeBrace: some word has a braced simple parameter expansion
// directly followed by a literal starting with "{" (a brace expansion).
func c03ParamBeforeBrace(f *syntax.File) bool {
	found := false
	syntax.Walk(f, func(n syntax.Node) bool {
		var parts []syntax.WordPart
		if w, ok := n.(*syntax.Word); ok {
			parts = w.Parts
		}
		for i := 0; i+1 < len(parts); i++ {
			pe, ok := parts[i].(*syntax.ParamExp)
			if !ok || pe.Short {
				continue
			}
			if lit, ok := parts[i+1].(*syntax.Lit); ok && strings.HasPrefix(lit.Value, "{") {
				found = true
			}
		}
		return !found
	})
	return found
}

// c03HeredocInsideHeredocBody: a here-document body contains a command
// substitution that itself has a here-document.
func c03HeredocInsideHeredocBody(f *syntax.File) bool {
	found := false
	syntax.Walk(f, func(n syntax.Node) bool {
		r, ok := n.(*syntax.Redirect)
		if !ok || r.Hdoc == nil {
			return !found
		}
		syntax.Walk(r.Hdoc, func(m syntax.Node) bool {
			if r2, ok := m.(*syntax.Redirect); ok && (r2.Op == syntax.Hdoc || r2.Op == syntax.DashHdoc) {
				found = true
			}
			return !found
		})
		return !found
	})
	return found
}

func c03StartsWithSign(e syntax.ArithmExpr) bool {
	switch e := e.(type) {
	case *syntax.UnaryArithm:
		if e.Post {
			return c03StartsWithSign(e.X)
		}
		switch e.Op {
		case syntax.Plus, syntax.Minus, syntax.Inc, syntax.Dec:
			return true
		}
	case *syntax.BinaryArithm:
		return c03StartsWithSign(e.X)
	}
	return false
}

// c03ArithSignsIn: binary=false: a prefix + or - applied to an operand whose
// text starts with + or - (`- -x`, `+ ++x`); binary=true: a binary + or -
// whose right operand starts with + or - (`x - -1`, `x + ++y`).
func c03ArithSignsIn(root syntax.Node, binary bool) bool {
	found := false
	syntax.Walk(root, func(n syntax.Node) bool {
		switch n := n.(type) {
		case *syntax.UnaryArithm:
			if !binary && !n.Post && (n.Op == syntax.Plus || n.Op == syntax.Minus) && c03StartsWithSign(n.X) {
				found = true
			}
		case *syntax.BinaryArithm:
			if binary && (n.Op == syntax.Add || n.Op == syntax.Sub) && c03StartsWithSign(n.Y) {
				found = true
			}
		}
		return !found
	})
	return found
}

func c03ArithSigns(f *syntax.File, binary bool) bool { return c03ArithSignsIn(f, binary) }

// c03ArithSignsCompactContext: the binary pattern sits where the printer
// always prints arithmetic without spaces: ${v:off:len} and let.
func c03ArithSignsCompactContext(f *syntax.File) bool {
	found := false
	syntax.Walk(f, func(n syntax.Node) bool {
		switch n := n.(type) {
		case *syntax.ParamExp:
			if n.Slice != nil {
				if n.Slice.Offset != nil && c03ArithSignsIn(n.Slice.Offset, true) {
					found = true
				}
				if n.Slice.Length != nil && c03ArithSignsIn(n.Slice.Length, true) {
					found = true
				}
			}
		case *syntax.LetClause:
			for _, e := range n.Exprs {
				if c03ArithSignsIn(e, true) {
					found = true
				}
			}
		}
		return !found
	})
	return found
}

// c03PrintsFunctionSource: the program declares a function and lists
// function bodies with declare/typeset -f or type.
func c03PrintsFunctionSource(f *syntax.File) bool {
	hasFunc, lists := false, false
	syntax.Walk(f, func(n syntax.Node) bool {
		switch n := n.(type) {
		case *syntax.FuncDecl:
			hasFunc = true
		case *syntax.DeclClause:
			if n.Variant != nil && (n.Variant.Value == "declare" || n.Variant.Value == "typeset") {
				for _, a := range n.Args {
					if a.Naked && a.Value != nil {
						if l := a.Value.Lit(); strings.HasPrefix(l, "-") && strings.Contains(l, "f") {
							lists = true
						}
					}
				}
			}
		case *syntax.CallExpr:
			if len(n.Args) > 0 {
				if l := n.Args[0].Lit(); l == "type" {
					lists = true
				}
			}
		}
		return true
	})
	return hasFunc && lists
}

// c03ParseTimeSwitch: the program switches on something bash consults while
// parsing (extglob, alias definitions) and the printed text has that command
// on the same line as a later command (bash parses a whole line before
// running any of it).
func c03ParseTimeSwitch(f *syntax.File, text string) bool {
	sw := false
	for _, st := range f.Stmts {
		syntax.Walk(st, func(n syntax.Node) bool {
			if ce, ok := n.(*syntax.CallExpr); ok && len(ce.Args) > 0 {
				switch ce.Args[0].Lit() {
				case "shopt":
					for _, a := range ce.Args[1:] {
						if l := a.Lit(); l == "extglob" || l == "expand_aliases" {
							sw = true
						}
					}
				case "alias":
					sw = true
				}
			}
			return true
		})
	}
	if !sw {
		return false
	}
	for _, line := range strings.Split(text, "\n") {
		if i := strings.Index(line, "extglob"); i >= 0 && strings.Contains(line[i:], ";") {
			return true
		}
		if i := strings.Index(line, "alias "); i >= 0 && strings.Contains(line[i:], ";") {
			return true
		}
	}
	return false
}

// c03NestedBackgroundBeforeSibling: some statement list has a non-background
// statement that contains a background statement and is followed by another
// statement (SingleLine then omits the separator: `{ a & } b`).
func c03NestedBackgroundBeforeSibling(f *syntax.File) bool {
	found := false
	hasBg := func(s *syntax.Stmt) bool {
		bg := false
		syntax.Walk(s, func(n syntax.Node) bool {
			if st, ok := n.(*syntax.Stmt); ok && st != s && st.Background {
				bg = true
			}
			return !bg
		})
		return bg
	}
	list := func(l []*syntax.Stmt) {
		for i := 0; i+1 < len(l); i++ {
			if !l[i].Background && hasBg(l[i]) {
				found = true
			}
		}
	}
	syntax.Walk(f, func(n syntax.Node) bool {
		switch n := n.(type) {
		case *syntax.File:
			list(n.Stmts)
		case *syntax.Block:
			list(n.Stmts)
		case *syntax.Subshell:
			list(n.Stmts)
		case *syntax.CmdSubst:
			list(n.Stmts)
		case *syntax.ProcSubst:
			list(n.Stmts)
		case *syntax.CaseItem:
			list(n.Stmts)
		case *syntax.IfClause:
			list(n.Cond)
			list(n.Then)
		case *syntax.WhileClause:
			list(n.Cond)
			list(n.Do)
		case *syntax.ForClause:
			list(n.Do)
		}
		return !found
	})
	return found
}

// c03BackquotedHeredocBodyOutside: a here-document is opened inside a
// backquoted command substitution and its body follows the line, outside the
// backquotes. The parser accepts that like $(…); bash ends such a
// here-document at the closing backquote.
func c03BackquotedHeredocBodyOutside(f *syntax.File) bool {
	found := false
	syntax.Walk(f, func(n syntax.Node) bool {
		cs, ok := n.(*syntax.CmdSubst)
		if !ok || !cs.Backquotes {
			return !found
		}
		syntax.Walk(cs, func(m syntax.Node) bool {
			if r, ok := m.(*syntax.Redirect); ok && r.Hdoc != nil && r.Hdoc.Pos().After(cs.Right) {
				found = true
			}
			return !found
		})
		return !found
	})
	return found
}

// c03HeredocLineContinuesInsideSubst: inside $( ) or <( ), a statement that
// opens a here-document is followed on the same line by a sibling statement
// (`$(c <<E; echo s⏎body⏎E⏎)`). bash 5.2 loses or rejects the rest of that
// line; the printed form puts the sibling on its own line.
func c03HeredocLineContinuesInsideSubst(f *syntax.File) bool {
	found := false
	hdocLine := func(s *syntax.Stmt) uint {
		var line uint
		syntax.Walk(s, func(n syntax.Node) bool {
			if r, ok := n.(*syntax.Redirect); ok && (r.Op == syntax.Hdoc || r.Op == syntax.DashHdoc) && line == 0 {
				line = r.OpPos.Line()
			}
			return true
		})
		return line
	}
	list := func(l []*syntax.Stmt) {
		for i := 0; i+1 < len(l); i++ {
			if hl := hdocLine(l[i]); hl != 0 && l[i+1].Pos().Line() == hl {
				found = true
			}
		}
	}
	inside := func(root syntax.Node) {
		syntax.Walk(root, func(n syntax.Node) bool {
			switch n := n.(type) {
			case *syntax.CmdSubst:
				list(n.Stmts)
			case *syntax.ProcSubst:
				list(n.Stmts)
			case *syntax.Block:
				list(n.Stmts)
			case *syntax.Subshell:
				list(n.Stmts)
			}
			return !found
		})
	}
	syntax.Walk(f, func(n syntax.Node) bool {
		switch n := n.(type) {
		case *syntax.CmdSubst:
			if !n.Backquotes {
				inside(n)
			}
		case *syntax.ProcSubst:
			inside(n)
		}
		return !found
	})
	return found
}
