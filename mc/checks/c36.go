package checks

import (
	"bytes"
	"fmt"
	"os"
	"os/exec"
	"path/filepath"
	"sort"
	"strings"
	"sync"
	"sync/atomic"

	"verif/mc/vc"
)

func init() { Registry["C36"] = c36 }

// C36: shfmt's list, diff, write and stdin modes agree. Everything goes
// through the real binary (built from /repo at check time): exit status and
// bytes.

// ---- file kinds -----------------------------------------------------------

type c36Kind struct {
	Name    string
	Ext     string // file name suffix
	Content string
	Walked  bool // found by `shfmt dir` (shell extension, or no extension with a shebang)
}

var c36Kinds = []c36Kind{
	// formatted under every flag set
	{"fmt", ".sh", "echo foo\n", true},
	// unformatted under every flag set; [[ ]] makes it a parse error under posix
	{"unf", ".sh", "if  [[ \"$a\" == b ]] ;then\necho   'a'  >out\nfi\n", true},
	// formatted under the default flags only (tab-indented body, binary
	// operator at the line end, unindented case, `>out`, `f() {`, `$x` in arithmetic)
	{"tab", ".sh", "#!/bin/sh\nf() {\n\tif a &&\n\t\tb; then\n\t\techo \"$((1 + $x))\" >out\n\tfi\n\tcase $1 in\n\ta) echo a ;;\n\tesac\n}\n", true},
	// parse error in every language
	{"perr", ".sh", "if true; then\n\techo 'x\n", true},
	// shell content under a non-shell extension: only formatted when named explicitly
	{"txt", ".txt", "echo   txt\nfoo   &&\n  bar\n", false},
	// no extension, #!/bin/sh shebang, unformatted, no trailing newline
	{"shebang", "", "#!/bin/sh\nfoo(){ echo   shebang; }", true},
	// no extension and no shebang: only formatted when named explicitly
	{"noext", "", "echo   plain\n", false},
	// bash-only syntax under a .sh name: unformatted under the default
	// language (bash), a parse error under posix and mksh
	{"bashism", ".sh", "echo ${a^^}   $[1+2]\n(( a ))\n", true},
}

// ---- flags and their EditorConfig equivalents -----------------------------

type c36Flag struct {
	Name string
	Arg  string
	EC   string
}

var c36Flags = map[string]c36Flag{
	"i0":      {"i0", "-i=0", "indent_style = tab\n"},
	"i2":      {"i2", "-i=2", "indent_style = space\nindent_size = 2\n"},
	"bn":      {"bn", "-bn", "binary_next_line = true\n"},
	"ci":      {"ci", "-ci", "switch_case_indent = true\n"},
	"sr":      {"sr", "-sr", "space_redirects = true\n"},
	"fn":      {"fn", "-fn", "function_next_line = true\n"},
	"mn":      {"mn", "-mn", "minify = true\n"},
	"s":       {"s", "-s", "simplify = true\n"},
	"lnposix": {"lnposix", "-ln=posix", "shell_variant = posix\n"},
	"lnbash":  {"lnbash", "-ln=bash", "shell_variant = bash\n"},
}

func c36Args(set []string) []string {
	var out []string
	for _, f := range set {
		out = append(out, c36Flags[f].Arg)
	}
	return out
}

// c36EditorConfig is the .editorconfig used for a (flag set, mode) pair.
// Mode "flags": the options are given on the command line; when there is at
// least one, the file holds conflicting decoy settings, which shfmt must skip
// ("using any formatting option skips all EditorConfig usage"). Mode "ec": no
// command-line options, the file holds the equivalent settings.
func c36EditorConfig(set []string, mode string) string {
	s := "root = true\n\n[*]\n"
	if mode == "ec" {
		for _, f := range set {
			s += c36Flags[f].EC
		}
		return s
	}
	if len(set) > 0 {
		s += "indent_style = space\nindent_size = 7\nbinary_next_line = true\nspace_redirects = true\n"
	}
	return s
}

// ---- running shfmt --------------------------------------------------------

type c36Result struct {
	Stdout string
	Stderr string
	Exit   int
}

var c36Execs atomic.Int64

func c36Run(bin, dir, tmpdir string, stdin []byte, args ...string) c36Result {
	cmd := exec.Command(bin, args...)
	cmd.Dir = dir
	cmd.Env = []string{"PATH=/usr/bin:/bin", "NO_COLOR=1", "TMPDIR=" + tmpdir, "HOME=" + tmpdir, "GOMAXPROCS=1"}
	if stdin != nil {
		cmd.Stdin = bytes.NewReader(stdin)
	}
	var out, errb bytes.Buffer
	cmd.Stdout, cmd.Stderr = &out, &errb
	err := cmd.Run()
	c36Execs.Add(1)
	r := c36Result{Stdout: out.String(), Stderr: errb.String()}
	if err != nil {
		if ee, ok := err.(*exec.ExitError); ok && ee.Exited() {
			r.Exit = ee.ExitCode()
		} else {
			panic(fmt.Sprintf("cannot run shfmt: %v", err))
		}
	}
	return r
}

func c36BuildShfmt(dir string) (string, error) {
	bin := filepath.Join(dir, "shfmt")
	args := []string{"build", "-o", bin}
	if ov := os.Getenv("VERIF_EXTRA_OVERLAY"); ov != "" {
		args = append(args, "-overlay", ov)
	}
	args = append(args, "mvdan.cc/sh/v3/cmd/shfmt")
	cmd := exec.Command("go1.26", args...)
	cmd.Dir = "/repo"
	// -mod=readonly instead of HACKING.md's -mod=mod: with -mod=mod the go
	// command may rewrite /repo/go.sum, and /repo must never be modified
	cmd.Env = append(os.Environ(), "GOFLAGS=-mod=readonly", "GOPROXY=off", "GOSUMDB=off", "GOTOOLCHAIN=local")
	if out, err := cmd.CombinedOutput(); err != nil {
		return "", fmt.Errorf("building shfmt: %v\n%s", err, out)
	}
	return bin, nil
}

// ---- the oracle: formatted(kind, flags, mode) ------------------------------

type c36Fmt struct {
	once  sync.Once
	File  c36Result // shfmt <flags> f
	Stdin c36Result // shfmt <flags> --filename f < f
}

// Err reports that the file does not parse under these options.
func (f *c36Fmt) Err() bool { return f.File.Exit != 0 }

type c36Oracle struct {
	bin, base string
	seq       atomic.Int64
	memo      sync.Map
}

func (o *c36Oracle) get(kind int, set []string, mode string) *c36Fmt {
	key := fmt.Sprintf("%d|%s|%s", kind, strings.Join(set, ","), mode)
	v, _ := o.memo.LoadOrStore(key, &c36Fmt{})
	f := v.(*c36Fmt)
	f.once.Do(func() {
		// the file alone in a directory of its own
		d := filepath.Join(o.base, fmt.Sprintf("o%d", o.seq.Add(1)))
		tree := filepath.Join(d, "tree")
		tmp := filepath.Join(d, "tmp")
		os.MkdirAll(tree, 0o755)
		os.MkdirAll(tmp, 0o755)
		defer os.RemoveAll(d)
		k := c36Kinds[kind]
		name := "f" + k.Ext
		os.WriteFile(filepath.Join(tree, ".editorconfig"), []byte(c36EditorConfig(set, mode)), 0o644)
		os.WriteFile(filepath.Join(tree, name), []byte(k.Content), 0o644)
		var args []string
		if mode == "flags" {
			args = c36Args(set)
		}
		f.File = c36Run(o.bin, tree, tmp, nil, append(append([]string{}, args...), name)...)
		f.Stdin = c36Run(o.bin, tree, tmp, []byte(k.Content), append(append([]string{}, args...), "--filename", name)...)
	})
	return f
}

// ---- unified diff ----------------------------------------------------------

// c36SplitDiff splits the output of `shfmt -d` into one diff per file, keyed
// by path. The format is the one of rogpeppe/go-internal/diff (Go's
// internal/diff): "diff a.orig a", "--- a.orig", "+++ a", then hunks.
func c36SplitDiff(out string) (map[string]string, []string, error) {
	diffs := map[string]string{}
	var order []string
	lines := strings.SplitAfter(out, "\n")
	cur := ""
	for i := 0; i < len(lines); i++ {
		ln := lines[i]
		if ln == "" {
			continue
		}
		if strings.HasPrefix(ln, "diff ") {
			if i+2 >= len(lines) {
				return nil, nil, fmt.Errorf("truncated diff header %q", ln)
			}
			old, ok1 := strings.CutPrefix(strings.TrimSuffix(lines[i+1], "\n"), "--- ")
			path, ok2 := strings.CutPrefix(strings.TrimSuffix(lines[i+2], "\n"), "+++ ")
			if !ok1 || !ok2 || old != path+".orig" || ln != "diff "+old+" "+path+"\n" {
				return nil, nil, fmt.Errorf("malformed diff header %q %q %q", ln, lines[i+1], lines[i+2])
			}
			if _, dup := diffs[path]; dup {
				return nil, nil, fmt.Errorf("two diffs for %s", path)
			}
			cur = path
			diffs[cur] = ""
			order = append(order, cur)
			i += 2
			continue
		}
		if cur == "" {
			return nil, nil, fmt.Errorf("text before the first diff header: %q", ln)
		}
		diffs[cur] += ln
	}
	return diffs, order, nil
}

// c36Apply applies the hunks of one file diff to orig, checking every context
// and removed line and the counts in the hunk headers.
func c36Apply(orig, hunks string) (string, error) {
	src := strings.SplitAfter(orig, "\n")
	if n := len(src); n > 0 && src[n-1] == "" {
		src = src[:n-1]
	}
	var out strings.Builder
	pos := 0 // next unconsumed line of src
	lines := strings.SplitAfter(hunks, "\n")
	if n := len(lines); n > 0 && lines[n-1] == "" {
		lines = lines[:n-1]
	}
	i := 0
	if len(lines) == 0 {
		return "", fmt.Errorf("diff without hunks")
	}
	for i < len(lines) {
		var a, b, c, d int
		if n, err := fmt.Sscanf(lines[i], "@@ -%d,%d +%d,%d @@\n", &a, &b, &c, &d); err != nil || n != 4 {
			return "", fmt.Errorf("bad hunk header %q", lines[i])
		}
		i++
		start := a - 1
		if b == 0 {
			start = a
		}
		if start < pos || start > len(src) {
			return "", fmt.Errorf("hunk at old line %d overlaps or is out of range", a)
		}
		for ; pos < start; pos++ {
			out.WriteString(src[pos])
		}
		if got := strings.Count(out.String(), "\n") + 1; d > 0 && got != c {
			return "", fmt.Errorf("hunk claims new line %d but output is at line %d", c, got)
		}
		nold, nnew := 0, 0
		for i < len(lines) && !strings.HasPrefix(lines[i], "@@") {
			ln := lines[i]
			i++
			text := ln[1:]
			// "\ No newline at end of file" qualifies the previous line
			if i < len(lines) && strings.HasPrefix(lines[i], "\\ No newline at end of file") {
				text = strings.TrimSuffix(text, "\n")
				i++
			}
			switch ln[0] {
			case ' ', '-':
				if pos >= len(src) || src[pos] != text {
					have := "<end of file>"
					if pos < len(src) {
						have = src[pos]
					}
					return "", fmt.Errorf("old line %d is %q, the diff says %q", pos+1, have, text)
				}
				pos++
				nold++
				if ln[0] == ' ' {
					out.WriteString(text)
					nnew++
				}
			case '+':
				out.WriteString(text)
				nnew++
			default:
				return "", fmt.Errorf("bad diff line %q", ln)
			}
		}
		if nold != b || nnew != d {
			return "", fmt.Errorf("hunk header says -%d +%d lines, body has -%d +%d", b, d, nold, nnew)
		}
	}
	for ; pos < len(src); pos++ {
		out.WriteString(src[pos])
	}
	return out.String(), nil
}

// ---- cases -----------------------------------------------------------------

type c36File struct {
	Kind int    `json:"kind"`
	Dir  string `json:"dir"`
}

type c36Case struct {
	// Phase "single": one file kind alone, file argument against stdin, flags
	// against EditorConfig. Phase "tree": a directory tree through -l, -d, -w, -l.
	Phase string    `json:"phase"`
	Kind  int       `json:"kind,omitempty"`
	Files []c36File `json:"files,omitempty"`
	Flags []string  `json:"flags"`
	// Walk: the directories are the arguments; otherwise every file is named.
	Walk bool `json:"walk,omitempty"`
	// Phase "hetero": a tree whose directories a and b have DIFFERENT settings,
	// Flags for a and FlagsB for b, given as EditorConfig only; Layout
	// "sections": one root .editorconfig with sections [a/**] and [b/**];
	// "nested": a/.editorconfig and b/.editorconfig with a [*] section each.
	FlagsB []string `json:"flags_b,omitempty"`
	Layout string   `json:"layout,omitempty"`
	// Phase "shebang": one file "f<Ext>" = shebang line + body, see c36_shebang.go
	Spell *c36Spell `json:"spell,omitempty"`
	Ext   string    `json:"ext,omitempty"`
	Body  int       `json:"body,omitempty"`
}

func (t c36Case) hetero() bool { return t.Phase == "hetero" }

// setOf is the flag set in force for a file of the tree.
func (t c36Case) setOf(f c36File) []string {
	if t.hetero() && f.Dir == "b" {
		return t.FlagsB
	}
	return t.Flags
}

func c36ECBody(set []string) string {
	s := ""
	for _, f := range set {
		s += c36Flags[f].EC
	}
	return s
}

// editorConfigs lists the .editorconfig files of a hetero tree (path -> text).
func (t c36Case) editorConfigs() map[string]string {
	switch t.Layout {
	case "sections":
		return map[string]string{".editorconfig": "root = true\n\n[a/**]\n" + c36ECBody(t.Flags) + "\n[b/**]\n" + c36ECBody(t.FlagsB)}
	case "nested":
		return map[string]string{
			".editorconfig":   "root = true\n",
			"a/.editorconfig": "[*]\n" + c36ECBody(t.Flags),
			"b/.editorconfig": "[*]\n" + c36ECBody(t.FlagsB),
		}
	}
	panic("bad layout " + t.Layout)
}

func (t c36Case) paths() []string {
	out := make([]string, len(t.Files))
	for i, f := range t.Files {
		out[i] = fmt.Sprintf("%s/f%d%s", f.Dir, i, c36Kinds[f.Kind].Ext)
	}
	return out
}

func (t c36Case) key() string {
	if t.Phase == "single" {
		return fmt.Sprintf("single %s [%s]", c36Kinds[t.Kind].Name, strings.Join(t.Flags, " "))
	}
	if t.Phase == "shebang" {
		return fmt.Sprintf("shebang %q f%s body=%s", t.Spell.line(), t.Ext, c36Bodies[t.Body].Name)
	}
	var fs []string
	for _, f := range t.Files {
		fs = append(fs, f.Dir+"/"+c36Kinds[f.Kind].Name)
	}
	inv := "explicit"
	if t.Walk {
		inv = "walk"
	}
	if t.hetero() {
		return fmt.Sprintf("hetero %s %s {%s} a=[%s] b=[%s]", t.Layout, inv, strings.Join(fs, " "), strings.Join(t.Flags, " "), strings.Join(t.FlagsB, " "))
	}
	return fmt.Sprintf("tree %s {%s} [%s]", inv, strings.Join(fs, " "), strings.Join(t.Flags, " "))
}

// c36HeteroPairs lists the ordered pairs (settings of a, settings of b) of a
// tier. Quick: every flag against the empty set in both orders, and four
// mixed pairs in both orders; thorough: all ordered pairs of distinct quick
// flag sets.
func c36HeteroPairs(quick bool) [][2][]string {
	var out [][2][]string
	seen := map[string]bool{}
	add := func(a, b []string) {
		k := strings.Join(a, ",") + "|" + strings.Join(b, ",")
		if !seen[k] && strings.Join(a, ",") != strings.Join(b, ",") {
			seen[k] = true
			out = append(out, [2][]string{a, b})
		}
	}
	// simplify/minify and language first: the settings kept outside the printer
	for _, f := range []string{"s", "mn", "lnposix", "lnbash", "i2", "i0", "bn", "ci", "sr", "fn"} {
		add([]string{f}, nil)
		add(nil, []string{f})
	}
	for _, p := range [][2][]string{
		{{"i2", "ci"}, {"bn", "sr"}},
		{{"s", "lnposix"}, {"i2", "mn"}},
		{{"lnposix"}, {"lnbash"}},
		{{"i2"}, {"i0"}},
	} {
		add(p[0], p[1])
		add(p[1], p[0])
	}
	if quick {
		return out
	}
	sets := c36FlagSets(true)
	for _, a := range sets {
		for _, b := range sets {
			add(a, b)
		}
	}
	return out
}

// c36FlagSets lists the flag sets of a tier, each in a fixed flag order.
func c36FlagSets(quick bool) [][]string {
	order := []string{"i0", "i2", "bn", "ci", "sr", "fn", "mn", "s", "lnposix", "lnbash"}
	seen := map[string]bool{}
	var sets [][]string
	add := func(set ...string) {
		var norm []string
		for _, f := range order {
			for _, g := range set {
				if f == g {
					norm = append(norm, f)
				}
			}
		}
		k := strings.Join(norm, ",")
		if !seen[k] {
			seen[k] = true
			sets = append(sets, norm)
		}
	}
	add()
	for _, f := range order {
		add(f)
	}
	for _, p := range [][]string{{"i2", "ci"}, {"bn", "sr"}, {"s", "lnposix"}, {"i2", "mn"}, {"ci", "fn"}, {"i2", "lnbash"}} {
		add(p...)
	}
	if !quick {
		core := []string{"i2", "bn", "ci", "s", "lnposix"}
		for m := 0; m < 1<<len(core); m++ {
			var set []string
			for i, f := range core {
				if m&(1<<i) != 0 {
					set = append(set, f)
				}
			}
			add(set...)
		}
		add("i2", "bn", "ci", "sr", "fn", "s", "lnbash")
		add("i2", "bn", "ci", "sr", "fn", "mn")
	}
	return sets
}

func c36(c *vc.Ctx) {
	c.Reruns = 1
	c.BatchSize = 1 // every case runs several processes
	tmp, err := os.MkdirTemp("", "c36-")
	if err != nil {
		fmt.Fprintln(os.Stderr, err)
		os.Exit(2)
	}
	die := func(err error) {
		os.RemoveAll(tmp)
		fmt.Fprintln(os.Stderr, "C36:", err)
		os.Exit(2)
	}
	bin, err := c36BuildShfmt(tmp)
	if err != nil {
		die(err)
	}
	oracle := &c36Oracle{bin: bin, base: tmp}
	maxFiles := vc.Pick(c, 2, 4)
	sets := c36FlagSets(c.Quick())

	// the kinds must be what their names say, else the enumeration is hollow
	for i, k := range c36Kinds {
		def := oracle.get(i, nil, "flags")
		i2 := oracle.get(i, []string{"i2"}, "flags")
		var bad string
		switch k.Name {
		case "fmt":
			if def.Err() || def.File.Stdout != k.Content || i2.File.Stdout != k.Content {
				bad = "is not formatted"
			}
		case "tab":
			if def.Err() || def.File.Stdout != k.Content || i2.Err() || i2.File.Stdout == k.Content {
				bad = "is not formatted exactly under the default options"
			}
		case "perr":
			if !def.Err() {
				bad = "parses"
			}
		default:
			if def.Err() || def.File.Stdout == k.Content {
				bad = "is not unformatted"
			}
		}
		if k.Name == "bashism" && bad == "" {
			if !oracle.get(i, []string{"lnposix"}, "flags").Err() || !oracle.get(i, []string{"lnposix"}, "ec").Err() || oracle.get(i, []string{"lnbash"}, "ec").Err() {
				bad = "does not tell posix from bash"
			}
		}
		if bad != "" {
			die(fmt.Errorf("file kind %s %s: %+v", k.Name, bad, def.File))
		}
	}
	// the shebang bodies must tell every two languages apart by status and
	// bytes, and the generated spellings must be what the grammar says
	{
		sig := map[string]string{}
		for _, l := range c36Langs {
			for _, b := range c36Bodies {
				r := c36Run(bin, tmp, tmp, []byte(b.Src), "-ln="+l)
				sig[l] += fmt.Sprintf("%d %q|", r.Exit, r.Stdout)
			}
		}
		for i, l := range c36Langs {
			for _, m := range c36Langs[:i] {
				if sig[l] == sig[m] {
					die(fmt.Errorf("the shebang bodies do not tell %s from %s: %s", l, m, sig[l]))
				}
			}
		}
		for _, sc := range c36ShebangSpace(c.Quick()) {
			sp := sc.Spell
			valid := (sp.Path == "/bin/" || sp.Path == "/usr/bin/") && (sp.Env == "" || strings.Trim(sp.Env[3:], " \t") == "" && len(sp.Env) > 3) && c36ShellLang(sp.Shell) != ""
			want := ""
			if valid {
				want = sp.Shell
			}
			if got := c36ShebangShell(sp.line() + c36Bodies[sc.Body].Src); got != want {
				die(fmt.Errorf("spelling %q: built to name %q, the grammar reads %q", sp.line(), want, got))
			}
		}
	}

	var kindNames []string
	for _, k := range c36Kinds {
		kindNames = append(kindNames, k.Name)
	}
	var setNames []string
	for _, s := range sets {
		setNames = append(setNames, "["+strings.Join(c36Args(s), " ")+"]")
	}
	var pairNames []string
	for _, p := range c36HeteroPairs(true) {
		pairNames = append(pairNames, "("+strings.Join(c36Args(p[0]), " ")+" | "+strings.Join(c36Args(p[1]), " ")+")")
	}
	c.Rule = fmt.Sprintf("file kinds %v; flag sets %s. "+
		"Phase shebang: file f / f.sh = shebang line + body, alone in a tree; lines generated from the documented grammar `#!` blanks /bin/|/usr/bin/ [env blanks] shell: blanks after `#!` = 0..%d spaces, a tab, space+tab (line lengths 9..46 bytes, on both sides of any fixed probe size); quick: (/bin/, no env) and (/usr/bin/, `env `) x shells %v and non-shells %v x line end \\n x body multi (body bats too for bash and bats), plus /usr/local/bin/, `env -S `, `envbash` neighbours; thorough: /bin/,/usr/bin/ x {no env, `env `, `env  `, `env\\t`} x all eight names x both bodies, and line ends ` -e\\n`, \\r\\n for <=1 blank. Bodies %v tell all five languages apart by status and bytes (verified at start). Judged: `shfmt f` = `shfmt --filename f <f` = `shfmt -ln=<language of the shebang's shell> --filename f <f` (bytes, status); `shfmt -l .` considers the extension-less file iff the grammar finds a shell. "+
		"Phase hetero: directories a and b with DIFFERENT EditorConfig settings (ordered pairs; quick: %s; thorough: also all ordered pairs of distinct quick flag sets), laid out as sections [a/**] and [b/**] of one root file or as nested a/.editorconfig and b/.editorconfig, passed as explicit files and as directories; trees: {a/tab a/bashism b/tab b/bashism} (both settings-sensitive kinds under both settings in one run), thorough also every ordered pair of kinds (one file in a, one in b) under the quick pairs; every file must come out exactly as when formatted alone under the settings in force for it (-l, -d, -w, -l as in phase tree). "+
		"Phase single: per (kind, flag set): `shfmt F f` = `shfmt F --filename f <f` (bytes, status) and flags = EditorConfig. "+
		"Phase tree: all multisets of 1..%d kinds (listed in kind order, file i named f<i><ext>) x all placements in directories a/b with the first file in a, each flag set given once as command-line flags (next to a decoy .editorconfig with conflicting settings when non-empty) and once as the equivalent single-section .editorconfig, each tree passed once as explicit file arguments and once as its directories: -l lists exactly D = {f considered : formatted(f) != f}, -d holds one diff per member of D which applied to f gives formatted(f), status 1 iff D or a parse error, parse errors only on stderr; -w rewrites exactly D and leaves nothing else; -l afterwards prints nothing; all four agree between flags and EditorConfig. Order: shebang lines with <=3 blanks interleaved 2:1 with the hetero quick pairs, rest of the quick shebang sweep, single, trees of 1..2 files, then (thorough) rest of shebang, rest of hetero, trees of 3..4 files. distinct = (D, parse-error set, skipped set) patterns per settings and invocation; per shebang (line length, shell, extension, body, considered, error)",
		kindNames, strings.Join(setNames, " "), c36MaxBlank, c36ShebangShells, c36NotShells, []string{c36Bodies[0].Name, c36Bodies[1].Name}, strings.Join(pairNames, " "), maxFiles)
	c.Assumptions = []string{
		"formatted(f) is what `shfmt <options> f` prints for the file alone in a directory (with the options as flags, or as a single-section .editorconfig)",
		"when walking a directory shfmt considers files with a shell extension and extension-less files with a shell shebang (shfmt(1)); explicitly named files are always considered",
		"files with a parse error are reported on stderr, make the exit status 1 and appear in no list or diff",
		"a shell shebang is what shfmt(1)/fileutil.Shebang document: `#!`, optional blanks, /bin/ or /usr/bin/, optionally env and blanks, one of sh dash bash mksh bats zsh, then white space or the end; sh and dash mean -ln=posix",
		"an EditorConfig section [a/**] of the root file and a [*] section of a/.editorconfig both apply to every file below a (EditorConfig specification)",
	}

	var caseSeq atomic.Int64

	// Phase shebang: file "f<ext>" = shebang line + body, alone in a tree
	// without settings.
	//   F = shfmt f            S = shfmt --filename f <f
	//   R = shfmt -ln=L --filename f <f   where L is the language of the shell
	//       the documented shebang grammar finds (only when it finds one)
	//   W = shfmt -l .         (extension-less files only)
	// F = S = R in bytes and status; W lists f iff the grammar finds a shell
	// and R succeeds with bytes other than the file's.
	judgeShebang := func(t c36Case) *vc.Fail {
		key := t.key()
		content := t.Spell.line() + c36Bodies[t.Body].Src
		class := c36ClassShebang(content)
		fail := func(what, format string, args ...any) *vc.Fail {
			return &vc.Fail{Key: key + " " + what, Class: class, Msg: key + ": " + fmt.Sprintf(format, args...)}
		}
		d := filepath.Join(tmp, fmt.Sprintf("c%d", caseSeq.Add(1)))
		tree := filepath.Join(d, "tree")
		tmpdir := filepath.Join(d, "tmp")
		defer os.RemoveAll(d)
		os.MkdirAll(tree, 0o755)
		os.MkdirAll(tmpdir, 0o755)
		name := "f" + t.Ext
		if err := os.WriteFile(filepath.Join(tree, ".editorconfig"), []byte("root = true\n"), 0o644); err != nil {
			panic(err)
		}
		if err := os.WriteFile(filepath.Join(tree, name), []byte(content), 0o644); err != nil {
			panic(err)
		}
		shell := c36ShebangShell(content)
		lang := c36ShellLang(shell)
		show := func(r c36Result) string {
			return fmt.Sprintf("status %d %q (%s)", r.Exit, r.Stdout, strings.TrimSpace(r.Stderr))
		}
		same := func(a, b c36Result) bool { return a.Stdout == b.Stdout && a.Exit == b.Exit }
		F := c36Run(bin, tree, tmpdir, nil, name)
		S := c36Run(bin, tree, tmpdir, []byte(content), "--filename", name)
		for _, r := range []c36Result{F, S} {
			if r.Exit != 0 && r.Stdout != "" {
				return fail("output-and-error", "shfmt printed %q and failed with %q", r.Stdout, r.Stderr)
			}
			if r.Exit == 0 && r.Stderr != "" {
				return fail("stderr", "shfmt succeeded but wrote %q to stderr", r.Stderr)
			}
		}
		ref := S
		if lang != "" {
			R := c36Run(bin, tree, tmpdir, []byte(content), "-ln="+lang, "--filename", name)
			ref = R
			if !same(F, R) {
				return fail("file-language", "the shebang names %s, but `shfmt %s` gives %s while the same bytes through stdin with -ln=%s give %s", shell, name, show(F), lang, show(R))
			}
			if !same(S, R) {
				return fail("stdin-language", "the shebang names %s, but `shfmt --filename %s` on stdin gives %s while -ln=%s gives %s", shell, name, show(S), lang, show(R))
			}
		}
		if !same(F, S) {
			return fail("stdin", "`shfmt %s` gives %s, the same bytes through stdin with --filename give %s", name, show(F), show(S))
		}
		considered := "-"
		if t.Ext == "" {
			W := c36Run(bin, tree, tmpdir, nil, "-l", ".")
			wantOut, wantExit, wantErr := "", 0, false
			if lang != "" {
				switch {
				case ref.Exit != 0:
					wantExit, wantErr = 1, true
				case ref.Stdout != content:
					wantOut, wantExit = name+"\n", 1
				}
			}
			considered = fmt.Sprint(lang != "")
			if W.Stdout != wantOut || W.Exit != wantExit || (W.Stderr != "") != wantErr {
				return fail("walk", "`shfmt -l .` gives %s; the file has %s, formatting it gives %s, so the walk should print %q with status %d", show(W),
					map[bool]string{true: "a " + shell + " shebang", false: "no shell shebang"}[lang != ""], show(ref), wantOut, wantExit)
			}
		}
		c.Distinct(fmt.Sprintf("shebang len=%d shell=%s ext=%s body=%d walk=%s err=%v", len(t.Spell.line()), t.Spell.Shell, t.Ext, t.Body, considered, F.Exit != 0))
		if lang != "" {
			c.Count("shebang_cases_with_a_shell_shebang", 1)
			if n := len(t.Spell.line()) - len(t.Spell.Term); n > 32 {
				c.Count("shebang_cases_with_the_shell_name_ending_after_byte_32", 1)
			}
		} else {
			c.Count("shebang_cases_without_a_shell_shebang", 1)
		}
		return nil
	}

	judge := func(t c36Case) *vc.Fail {
		key := t.key()
		fail := func(what, class, format string, args ...any) *vc.Fail {
			return &vc.Fail{Key: key + " " + what, Class: class, Msg: key + ": " + fmt.Sprintf(format, args...)}
		}
		if t.Phase == "single" {
			fl := oracle.get(t.Kind, t.Flags, "flags")
			ec := oracle.get(t.Kind, t.Flags, "ec")
			for _, m := range []struct {
				name string
				f    *c36Fmt
			}{{"flags", fl}, {"ec", ec}} {
				if m.f.File.Exit != 0 && m.f.File.Stdout != "" {
					return fail(m.name+" output-and-error", "", "shfmt printed %q and failed with %q", m.f.File.Stdout, m.f.File.Stderr)
				}
				if m.f.File.Exit == 0 && m.f.File.Stderr != "" {
					return fail(m.name+" stderr", "", "shfmt succeeded but wrote %q to stderr", m.f.File.Stderr)
				}
				if m.f.Stdin.Stdout != m.f.File.Stdout || m.f.Stdin.Exit != m.f.File.Exit {
					return fail(m.name+" stdin", c36ClassStdin(t, m.name), "%s: formatting the file gives status %d %q (%s), the same bytes through stdin with --filename give status %d %q (%s)", m.name,
						m.f.File.Exit, m.f.File.Stdout, strings.TrimSpace(m.f.File.Stderr), m.f.Stdin.Exit, m.f.Stdin.Stdout, strings.TrimSpace(m.f.Stdin.Stderr))
				}
			}
			if fl.File.Stdout != ec.File.Stdout || fl.File.Exit != ec.File.Exit {
				return fail("flags-vs-ec", c36ClassEC(t), "flags %v give status %d %q (%s), the equivalent .editorconfig gives status %d %q (%s)", c36Args(t.Flags),
					fl.File.Exit, fl.File.Stdout, strings.TrimSpace(fl.File.Stderr), ec.File.Exit, ec.File.Stdout, strings.TrimSpace(ec.File.Stderr))
			}
			c.Distinct(fmt.Sprintf("single %d %v err=%v changed=%v", t.Kind, t.Flags, fl.Err(), fl.File.Stdout != c36Kinds[t.Kind].Content))
			return nil
		}

		if t.Phase == "shebang" {
			return judgeShebang(t)
		}

		// phases tree and hetero
		d := filepath.Join(tmp, fmt.Sprintf("c%d", caseSeq.Add(1)))
		tree := filepath.Join(d, "tree")
		tmpdir := filepath.Join(d, "tmp")
		defer os.RemoveAll(d)
		paths := t.paths()
		var argPaths []string
		if t.Walk {
			seen := map[string]bool{}
			for _, f := range t.Files {
				if !seen[f.Dir] {
					seen[f.Dir] = true
					argPaths = append(argPaths, f.Dir)
				}
			}
			sort.Strings(argPaths)
		} else {
			argPaths = paths
		}
		type modeResult struct {
			list, diff, write, relist c36Result
		}
		var results [2]modeResult
		modes := []string{"flags", "ec"}
		nconf := 1 // .editorconfig files of the tree
		if t.hetero() {
			// no single flag line is equivalent to per-directory settings
			modes = []string{"ec"}
			nconf = len(t.editorConfigs())
		}
		for mi, mode := range modes {
			os.RemoveAll(d)
			os.MkdirAll(tmpdir, 0o755)
			for i, f := range t.Files {
				os.MkdirAll(filepath.Join(tree, f.Dir), 0o755)
				if err := os.WriteFile(filepath.Join(tree, paths[i]), []byte(c36Kinds[f.Kind].Content), 0o644); err != nil {
					panic(err)
				}
			}
			confs := map[string]string{".editorconfig": c36EditorConfig(t.Flags, mode)}
			if t.hetero() {
				confs = t.editorConfigs()
			}
			for p, text := range confs {
				if err := os.WriteFile(filepath.Join(tree, p), []byte(text), 0o644); err != nil {
					panic(err)
				}
			}
			var fargs []string
			if mode == "flags" {
				fargs = c36Args(t.Flags)
			}
			cmdline := func(extra ...string) []string {
				return append(append(append([]string{}, fargs...), extra...), argPaths...)
			}
			// expectations from the oracle
			var want, wantErr, skipped []string // D, parse errors, not considered
			after := map[string]string{}
			for i, f := range t.Files {
				k := c36Kinds[f.Kind]
				after[paths[i]] = k.Content
				if t.Walk && !k.Walked {
					skipped = append(skipped, paths[i])
					continue
				}
				// the file formatted alone, under the settings in force for it
				o := oracle.get(f.Kind, t.setOf(f), mode)
				switch {
				case o.Err():
					wantErr = append(wantErr, paths[i])
				case o.File.Stdout != k.Content:
					want = append(want, paths[i])
					after[paths[i]] = o.File.Stdout
				}
			}
			sort.Strings(want)
			sort.Strings(wantErr)
			wantExit := 0
			if len(want)+len(wantErr) > 0 {
				wantExit = 1
			}
			errExit := 0
			if len(wantErr) > 0 {
				errExit = 1
			}
			checkStderr := func(what string, r c36Result) *vc.Fail {
				var got []string
				for _, ln := range strings.Split(strings.TrimSuffix(r.Stderr, "\n"), "\n") {
					if ln == "" {
						continue
					}
					p, _, ok := strings.Cut(ln, ":")
					if !ok {
						return fail(mode+" "+what+" stderr", "", "%s: unexpected stderr line %q", mode, ln)
					}
					got = append(got, p)
				}
				sort.Strings(got)
				if strings.Join(got, " ") != strings.Join(wantErr, " ") {
					return fail(mode+" "+what+" errors", "", "%s: shfmt %v reports errors for %v, files with a parse error are %v (stderr %q)", mode, cmdline(what), got, wantErr, r.Stderr)
				}
				return nil
			}

			// -l
			r := c36Run(bin, tree, tmpdir, nil, cmdline("-l")...)
			results[mi].list = r
			listed := strings.Split(strings.TrimSuffix(r.Stdout, "\n"), "\n")
			if r.Stdout == "" {
				listed = nil
			}
			sort.Strings(listed)
			if strings.Join(listed, "\n") != strings.Join(want, "\n") || (r.Stdout != "" && !strings.HasSuffix(r.Stdout, "\n")) {
				return fail(mode+" list", c36ClassList(listed, want), "%s: shfmt %v lists %q, the files whose formatting differs are %q", mode, cmdline("-l"), listed, want)
			}
			if r.Exit != wantExit {
				return fail(mode+" list-status", "", "%s: shfmt %v lists %q (parse errors %q) and exits %d, want %d", mode, cmdline("-l"), listed, wantErr, r.Exit, wantExit)
			}
			if f := checkStderr("-l", r); f != nil {
				return f
			}

			// -d
			r = c36Run(bin, tree, tmpdir, nil, cmdline("-d")...)
			results[mi].diff = r
			diffs, _, err := c36SplitDiff(r.Stdout)
			if err != nil {
				return fail(mode+" diff-syntax", "", "%s: shfmt %v: %v", mode, cmdline("-d"), err)
			}
			var diffed []string
			for p := range diffs {
				diffed = append(diffed, p)
			}
			sort.Strings(diffed)
			if strings.Join(diffed, "\n") != strings.Join(want, "\n") {
				return fail(mode+" diff-set", "", "%s: shfmt %v prints diffs for %q, the files whose formatting differs are %q", mode, cmdline("-d"), diffed, want)
			}
			for i, p := range paths {
				h, ok := diffs[p]
				if !ok {
					continue
				}
				got, err := c36Apply(c36Kinds[t.Files[i].Kind].Content, h)
				if err != nil {
					return fail(mode+" diff-apply "+p, "", "%s: the diff printed by shfmt %v for %s does not apply: %v\n%s", mode, cmdline("-d"), p, err, h)
				}
				if got != after[p] {
					return fail(mode+" diff-result "+p, "", "%s: applying the diff printed by shfmt %v for %s gives %q, the formatted file is %q", mode, cmdline("-d"), p, got, after[p])
				}
			}
			if r.Exit != wantExit {
				return fail(mode+" diff-status", "", "%s: shfmt %v prints diffs for %q (parse errors %q) and exits %d, want %d", mode, cmdline("-d"), diffed, wantErr, r.Exit, wantExit)
			}
			if f := checkStderr("-d", r); f != nil {
				return f
			}

			// -w
			r = c36Run(bin, tree, tmpdir, nil, cmdline("-w")...)
			results[mi].write = r
			if r.Stdout != "" {
				return fail(mode+" write-stdout", "", "%s: shfmt %v printed %q", mode, cmdline("-w"), r.Stdout)
			}
			if r.Exit != errExit {
				return fail(mode+" write-status", "", "%s: shfmt %v exits %d with stderr %q, want %d", mode, cmdline("-w"), r.Exit, r.Stderr, errExit)
			}
			if f := checkStderr("-w", r); f != nil {
				return f
			}
			for _, p := range paths {
				b, err := os.ReadFile(filepath.Join(tree, p))
				if err != nil {
					return fail(mode+" write-lost "+p, "", "%s: after shfmt %v: %v", mode, cmdline("-w"), err)
				}
				if string(b) != after[p] {
					return fail(mode+" write-content "+p, "", "%s: after shfmt %v, %s holds %q, want %q", mode, cmdline("-w"), p, b, after[p])
				}
			}
			n := 0
			filepath.WalkDir(d, func(p string, e os.DirEntry, err error) error {
				if err == nil && !e.IsDir() {
					n++
				}
				return nil
			})
			if n != len(paths)+nconf {
				return fail(mode+" write-leftover", "", "%s: after shfmt %v the tree and $TMPDIR hold %d files, want %d", mode, cmdline("-w"), n, len(paths)+nconf)
			}

			// -l again
			r = c36Run(bin, tree, tmpdir, nil, cmdline("-l")...)
			results[mi].relist = r
			if r.Stdout != "" {
				return fail(mode+" relist", "", "%s: after shfmt -w, shfmt %v still lists %q", mode, cmdline("-l"), r.Stdout)
			}
			if r.Exit != errExit {
				return fail(mode+" relist-status", "", "%s: after shfmt -w, shfmt %v exits %d with stderr %q, want %d", mode, cmdline("-l"), r.Exit, r.Stderr, errExit)
			}
			if f := checkStderr("-l", r); f != nil {
				return f
			}
			if mi == 0 {
				inv := "explicit"
				if t.Walk {
					inv = "walk"
				}
				if t.hetero() {
					inv = "hetero " + t.Layout + " " + inv + " b=" + strings.Join(t.FlagsB, ",")
				}
				c.Distinct(fmt.Sprintf("%s %v D=%v E=%v skip=%v", inv, t.Flags, c36PathsOf(t, want), c36PathsOf(t, wantErr), c36PathsOf(t, skipped)))
				if len(t.Files) == maxFiles && len(want) > 0 && len(wantErr) > 0 && len(t.Flags) > 0 {
					c.Sample(map[string]any{"case": t.key(), "listed": want, "parse_errors": wantErr, "not_considered": skipped, "diff_bytes": len(results[0].diff.Stdout)})
				}
			}
		}
		if t.hetero() {
			return nil
		}
		// flags = EditorConfig: identical stdout and status in all four steps
		a, b := results[0], results[1]
		for _, p := range []struct {
			name string
			x, y c36Result
		}{{"-l", a.list, b.list}, {"-d", a.diff, b.diff}, {"-w", a.write, b.write}, {"-l after -w", a.relist, b.relist}} {
			if p.x.Stdout != p.y.Stdout || p.x.Exit != p.y.Exit {
				return fail("flags-vs-ec "+p.name, c36ClassEC(t), "%s with flags %v: status %d %q; with the equivalent .editorconfig: status %d %q", p.name, c36Args(t.Flags), p.x.Exit, p.x.Stdout, p.y.Exit, p.y.Stdout)
			}
		}
		return nil
	}

	kindIndex := map[string]int{}
	for i, k := range c36Kinds {
		kindIndex[k.Name] = i
	}
	shebangCases := c36ShebangSpace(c.Quick())
	heteroQuick := c36HeteroPairs(true)
	heteroAll := c36HeteroPairs(c.Quick())
	c.Count("shebang_cases", len(shebangCases))
	c.Count("hetero_setting_pairs", len(heteroAll))
	complete := vc.Run(c, func(emit func(c36Case)) {
		shebang := func(keep func(c36ShebangCase) bool) []c36Case {
			var out []c36Case
			for _, sc := range shebangCases {
				if keep(sc) {
					sp := sc.Spell
					out = append(out, c36Case{Phase: "shebang", Spell: &sp, Ext: sc.Ext, Body: sc.Body})
				}
			}
			return out
		}
		hetero := func(files []c36File, pairs [][2][]string) []c36Case {
			var out []c36Case
			for _, p := range pairs {
				for _, layout := range []string{"sections", "nested"} {
					for _, walk := range []bool{false, true} {
						out = append(out, c36Case{Phase: "hetero", Files: files, Flags: p[0], FlagsB: p[1], Layout: layout, Walk: walk})
					}
				}
			}
			return out
		}
		emitHetero := func(files []c36File, pairs [][2][]string) {
			for _, t := range hetero(files, pairs) {
				emit(t)
			}
		}
		// The new dimensions first, smallest part first: every case costs
		// several processes and the tiers usually end at the time budget.
		// 1. shebang spellings with at most 3 blanks after "#!" (lines of
		// 9..25 bytes), interleaved two to one with
		// 2. the four-file tree with both settings-sensitive kinds in both
		// directories x the quick pairs of per-directory settings
		// (the thorough list of shebang cases starts with the quick list)
		quickShebang := len(c36ShebangSpace(true))
		inQuick := map[string]bool{}
		for _, sc := range shebangCases[:quickShebang] {
			inQuick[fmt.Sprintf("%q|%s|%d", sc.Spell.line(), sc.Ext, sc.Body)] = true
		}
		isQuick := func(sc c36ShebangCase) bool {
			return inQuick[fmt.Sprintf("%q|%s|%d", sc.Spell.line(), sc.Ext, sc.Body)]
		}
		short := func(sc c36ShebangCase) bool { return len(sc.Spell.Blank) <= 3 && isQuick(sc) }
		tab, bashism := kindIndex["tab"], kindIndex["bashism"]
		four := []c36File{{tab, "a"}, {bashism, "a"}, {tab, "b"}, {bashism, "b"}}
		sh, he := shebang(short), hetero(four, heteroQuick)
		for len(sh) > 0 || len(he) > 0 {
			for i := 0; i < 2 && len(sh) > 0; i++ {
				emit(sh[0])
				sh = sh[1:]
			}
			if len(he) > 0 {
				emit(he[0])
				he = he[1:]
			}
		}
		// 3. the rest of the quick tier's shebang sweep
		for _, t := range shebang(func(sc c36ShebangCase) bool { return !short(sc) && isQuick(sc) }) {
			emit(t)
		}
		// 4. single files, 5. trees of one or two files
		for _, set := range sets {
			for k := range c36Kinds {
				emit(c36Case{Phase: "single", Kind: k, Flags: set})
			}
		}
		// multisets of kinds in non-decreasing order x directory placements
		var kinds []int
		emitTree := func() {
			n := len(kinds)
			for m := 0; m < 1<<(n-1); m++ {
				files := make([]c36File, n)
				for i, k := range kinds {
					dir := "a"
					if i > 0 && m&(1<<(i-1)) != 0 {
						dir = "b"
					}
					files[i] = c36File{k, dir}
				}
				for _, set := range sets {
					emit(c36Case{Phase: "tree", Files: files, Flags: set, Walk: false})
					emit(c36Case{Phase: "tree", Files: files, Flags: set, Walk: true})
				}
			}
		}
		var rec func(min, lo, hi int)
		rec = func(min, lo, hi int) {
			if len(kinds) >= lo {
				emitTree()
			}
			if len(kinds) == hi {
				return
			}
			for k := min; k < len(c36Kinds); k++ {
				kinds = append(kinds, k)
				rec(k, lo, hi)
				kinds = kinds[:len(kinds)-1]
			}
		}
		small := 2
		if maxFiles < small {
			small = maxFiles
		}
		rec(0, 1, small)
		if !c.Quick() {
			// 6. the rest of the shebang space; all ordered pairs of settings
			// on the four-file tree (the quick pairs are not repeated) and
			// every ordered pair of kinds as a two-file tree under the quick
			// pairs; 7. trees of three and four files
			for _, t := range shebang(func(sc c36ShebangCase) bool { return !isQuick(sc) }) {
				emit(t)
			}
			emitHetero(four, heteroAll[len(heteroQuick):])
			for ka := range c36Kinds {
				for kb := range c36Kinds {
					emitHetero([]c36File{{ka, "a"}, {kb, "b"}}, heteroQuick)
				}
			}
			rec(0, small+1, maxFiles)
		}
	}, judge)
	c.Count("shfmt_executions", int(c36Execs.Load()))
	c.Count("flag_sets", len(sets))
	os.RemoveAll(tmp)
	c.Finish(complete)
}

// c36PathsOf is c36KindsOf, with the directory for a hetero tree (where the
// same kind in a and in b is under different settings).
func c36PathsOf(t c36Case, ps []string) []string {
	if !t.hetero() {
		return c36KindsOf(t, ps)
	}
	var out []string
	paths := t.paths()
	for _, p := range ps {
		for i, q := range paths {
			if p == q {
				out = append(out, t.Files[i].Dir+"/"+c36Kinds[t.Files[i].Kind].Name)
			}
		}
	}
	sort.Strings(out)
	return out
}

func c36KindsOf(t c36Case, ps []string) []string {
	var out []string
	paths := t.paths()
	for _, p := range ps {
		for i, q := range paths {
			if p == q {
				out = append(out, c36Kinds[t.Files[i].Kind].Name)
			}
		}
	}
	sort.Strings(out)
	return out
}

// Finding classes; filled in from what the current tree does (see the
// known-findings lines in the report). Anything else stays unclassified.
func c36ClassStdin(t c36Case, mode string) string { return "" }
func c36ClassEC(t c36Case) string                 { return "" }
func c36ClassList(got, want []string) string      { return "" }
