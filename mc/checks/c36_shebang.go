package checks

import (
	"fmt"
	"strings"
)

// C36, phase "shebang": how the language of a file is spelled in its first
// line. The spellings are generated from the grammar that shfmt(1) and
// fileutil.Shebang document:
//
//	#! blanks* /(usr/)?bin/ (env blanks+)? (sh|dash|bash|mksh|bats|zsh) (space|end)
//
// with the number of blanks swept so that the line length runs from 9 bytes to
// well beyond any fixed-size probe, crossed with negative neighbours (another
// interpreter, a longer word starting with a shell name, another directory,
// `env -S`).

type c36Spell struct {
	Blank string `json:"blank"` // between "#!" and the path
	Path  string `json:"path"`  // "/bin/", "/usr/bin/", ...
	Env   string `json:"env"`   // "", "env ", "env  ", "env\t", "env -S "
	Shell string `json:"shell"` // interpreter name
	Term  string `json:"term"`  // rest of the line including its newline
}

func (s c36Spell) line() string { return "#!" + s.Blank + s.Path + s.Env + s.Shell + s.Term }

func (s c36Spell) String() string { return fmt.Sprintf("%q", s.line()) }

// c36ShebangShell is the check's own reading of the documented grammar: the
// shell named by the shebang that text starts with, or "".
func c36ShebangShell(text string) string {
	rest, ok := strings.CutPrefix(text, "#!")
	if !ok {
		return ""
	}
	rest = strings.TrimLeft(rest, " \t")
	if r, ok := strings.CutPrefix(rest, "/usr/bin/"); ok {
		rest = r
	} else if r, ok := strings.CutPrefix(rest, "/bin/"); ok {
		rest = r
	} else {
		return ""
	}
	name := func(s string) string {
		// longest names first does not matter: the name must be followed by
		// white space or the end of the text
		for _, sh := range []string{"sh", "dash", "bash", "mksh", "bats", "zsh"} {
			if r, ok := strings.CutPrefix(s, sh); ok {
				if r == "" || strings.ContainsRune(" \t\n\f\r", rune(r[0])) {
					return sh
				}
			}
		}
		return ""
	}
	if r, ok := strings.CutPrefix(rest, "env"); ok {
		if t := strings.TrimLeft(r, " \t"); len(t) < len(r) {
			if sh := name(t); sh != "" {
				return sh
			}
		}
	}
	return name(rest)
}

// c36ShellLang maps a shebang shell to the -ln value of its language
// (shfmt(1): posix is also spelled sh and dash).
func c36ShellLang(shell string) string {
	switch shell {
	case "sh", "dash":
		return "posix"
	case "bash", "mksh", "bats", "zsh":
		return shell
	}
	return ""
}

// Bodies that tell the languages apart by exit status and formatted bytes
// alone: "multi" parses everywhere except under posix and prints differently
// under mksh (`|&` ends the statement), zsh/posix/mksh (`$[` is text) and
// bash/bats (`$[1+2]` becomes `$((1 + 2))`); "bats" parses only as bats.
var c36Bodies = []struct{ Name, Src string }{
	{"multi", "echo   $[1+2]\na   |& b\n"},
	{"bats", "@test \"x\" {   a; }\n"},
}

var c36Langs = []string{"posix", "bash", "mksh", "bats", "zsh"}

var c36ShebangShells = []string{"sh", "dash", "bash", "mksh", "bats", "zsh"}

// negative neighbours of the shell name: another interpreter, and a word that
// merely starts with a shell name
var c36NotShells = []string{"python", "shell"}

const c36MaxBlank = 24

// c36Blanks: 0..24 spaces (line lengths 9..33 for "#!/bin/sh", 20..44 for
// "#!/usr/bin/env mksh"), then a tab and a space-tab mix.
func c36Blanks() []string {
	var out []string
	for n := 0; n <= c36MaxBlank; n++ {
		out = append(out, strings.Repeat(" ", n))
	}
	return append(out, "\t", " \t")
}

type c36ShebangCase struct {
	Spell c36Spell
	Ext   string
	Body  int
}

// c36ShebangSpace lists the shebang cases of a tier, in sweep order (fewest
// blanks first).
func c36ShebangSpace(quick bool) []c36ShebangCase {
	var out []c36ShebangCase
	seen := map[string]bool{}
	add := func(sp c36Spell, ext string, body int) {
		k := fmt.Sprintf("%q|%s|%d", sp.line(), ext, body)
		if !seen[k] {
			seen[k] = true
			out = append(out, c36ShebangCase{sp, ext, body})
		}
	}
	type pe struct{ path, env string }
	quickPE := []pe{{"/bin/", ""}, {"/usr/bin/", "env "}}
	var allPE []pe
	for _, p := range []string{"/bin/", "/usr/bin/"} {
		for _, e := range []string{"", "env ", "env  ", "env\t"} {
			allPE = append(allPE, pe{p, e})
		}
	}
	shells := append(append([]string{}, c36ShebangShells...), c36NotShells...)
	exts := []string{"", ".sh"}
	// Q: the quick sweep
	for _, bl := range c36Blanks() {
		for _, x := range quickPE {
			for _, sh := range shells {
				for _, ext := range exts {
					add(c36Spell{bl, x.path, x.env, sh, "\n"}, ext, 0)
					if sh == "bash" || sh == "bats" {
						add(c36Spell{bl, x.path, x.env, sh, "\n"}, ext, 1)
					}
				}
			}
		}
		if bl == "" || bl == " " {
			// negative neighbours of the path and of env
			for _, ext := range exts {
				add(c36Spell{bl, "/usr/local/bin/", "", "bash", "\n"}, ext, 0)
				add(c36Spell{bl, "/usr/bin/", "env -S ", "bash", "\n"}, ext, 0)
				add(c36Spell{bl, "/usr/bin/", "env", "bash", "\n"}, ext, 0) // "envbash"
			}
		}
	}
	if quick {
		return out
	}
	// T: every path/env spelling x every shell x both bodies over the whole
	// sweep; other line endings for the short spellings
	for _, bl := range c36Blanks() {
		for _, x := range allPE {
			for _, sh := range shells {
				for _, ext := range exts {
					for body := range c36Bodies {
						add(c36Spell{bl, x.path, x.env, sh, "\n"}, ext, body)
						if bl == "" || bl == " " || bl == "\t" {
							add(c36Spell{bl, x.path, x.env, sh, " -e\n"}, ext, body)
							add(c36Spell{bl, x.path, x.env, sh, "\r\n"}, ext, body)
						}
					}
				}
			}
		}
	}
	return out
}

// Finding classes of the shebang phase: predicates over the input alone.
// shfmt reads the shebang of a file from its first 32 bytes, and of standard
// input from the whole text.
func c36ClassShebang(content string) string {
	probe := content
	if len(probe) > 32 {
		probe = probe[:32]
	}
	whole, cut := c36ShebangShell(content), c36ShebangShell(probe)
	switch {
	case whole != "" && cut == "":
		return "shebang-shell-name-ends-after-byte-32"
	case whole == "" && cut != "":
		return "shebang-word-cut-to-a-shell-name-at-byte-32"
	}
	return ""
}
