package checks

import (
	"crypto/sha256"
	"fmt"
	"reflect"
	"strings"
	"sync"

	"mvdan.cc/sh/v3/syntax"

	"verif/mc/synt"
	"verif/mc/vc"
)

func init() { Registry["C11"] = c11 }

// c11Case is one program; it is taken in every language variant and with
// every RecoverErrors limit inside the run function.
type c11Case struct {
	Src string `json:"src"`
	// 0 corpus, 1 grammar depth<=1, 2 layout deviation, 3 grammar depth 2,
	// 5 one-token-edit mutant
	Kind int `json:"kind"`
}

var c11RecoverLimits = []int{1, 2, 5}

type c11PKey struct {
	lang    syntax.LangVariant
	recover int
}

// c11WS caches one parser per (variant, RecoverErrors limit) per worker and
// accumulates the named counters locally (vc.Ctx.Count takes a global lock).
type c11WS struct {
	parsers map[c11PKey]*syntax.Parser
	counts  map[string]int
}

// c11Pool hands out workspaces; every workspace ever created stays
// registered in c11All so that its local counters can be flushed at the end
// of the run even if sync.Pool dropped it.
var (
	c11AllMu sync.Mutex
	c11All   []*c11WS
	c11Pool  = sync.Pool{New: func() any {
		w := &c11WS{parsers: map[c11PKey]*syntax.Parser{}, counts: map[string]int{}}
		c11AllMu.Lock()
		c11All = append(c11All, w)
		c11AllMu.Unlock()
		return w
	}}
)

func c11GetWS() *c11WS  { return c11Pool.Get().(*c11WS) }
func c11PutWS(w *c11WS) { c11Pool.Put(w) }

func c11FlushCounts(c *vc.Ctx) {
	c11AllMu.Lock()
	defer c11AllMu.Unlock()
	total := map[string]int{}
	for _, w := range c11All {
		for k, n := range w.counts {
			total[k] += n
		}
		w.counts = map[string]int{}
	}
	for k, n := range total {
		c.Count(k, n)
	}
}

func (w *c11WS) parse(src string, lang syntax.LangVariant, rec int) (*syntax.File, error) {
	k := c11PKey{lang, rec}
	p := w.parsers[k]
	if p == nil {
		opts := []syntax.ParserOption{syntax.Variant(lang), syntax.KeepComments(true)}
		if rec > 0 {
			opts = append(opts, syntax.RecoverErrors(rec))
		}
		p = syntax.NewParser(opts...)
		w.parsers[k] = p
	}
	return p.Parse(strings.NewReader(src), "")
}

var c11DumpOpts = synt.DumpOpts{Positions: true, Comments: true}

func c11(c *vc.Ctx) {
	space := synSpace{Depth: vc.Pick(c, 1, 2), CoreOnly: false, LayoutDepth: vc.Pick(c, 0, 1), Corpus: true, Variants: []string{"bash"}}
	mutCorpus := !c.Quick()        // mutate the corpus programs too
	mutMaxLen := vc.Pick(c, 8, 20) // programs up to this many bytes get deletions/replacements
	insMaxLen := vc.Pick(c, 0, 10) // programs up to this many bytes also get insertions
	c.Rule = strings.Replace(strings.Replace(space.describe(), "each program is taken in every language variant in which it parses", "each program is taken in all 5 language variants", 1), " (deep/layout programs in all variants: false)", "", 1) +
		fmt.Sprintf("; plus every 1-token edit (delete a token; replace a token by one of the %d tokens of the mutation alphabet = all variant-gated operators/keywords + structural tokens; insertion of an alphabet token at every token boundary for programs of at most %d bytes) of the depth<=1 default-layout grammar programs (corpus programs too: %v) of at most %d bytes; RecoverErrors limits {1,2,5}. "+
			"Oracle per program: (1) if Parse(LangPOSIX) succeeds, a reflection walk over the tree finds none of the constructs of the explicit non-POSIX list (c11_posix.go: every construct that parser.go/lexer.go gate with checkLang/lang.in on a set without LangPOSIX or that nodes.go documents as variant specific); (2) if Parse(LangBash) succeeds and the source does not contain the text '@test' (Bats' one documented extension keyword), Parse(LangBats) succeeds with an identical dump including positions and comments; (3) for every variant in which the program parses, parsing with RecoverErrors(1), (2), (5) returns a nil error and an identical dump (positions, comments; a recovered position would show as a difference). distinct = distinct programs valid in at least one variant",
			len(c11Alphabet), insMaxLen, mutCorpus, mutMaxLen)
	c.Assumptions = []string{
		"the explicit non-POSIX construct list in c11_posix.go is complete with respect to the gates present in parser.go/lexer.go/parser_arithm.go and the node comments of nodes.go/tokens.go; ungated arithmetic operators (** ++ -- , ^^) are counted, not judged",
		"synt.Dump (reflection over all exported fields, positions as offset:line:col, recovered positions printed as such) is a faithful canonical form of a tree",
		"a cached Parser per (variant, limit) behaves like a fresh one (that is property C08)",
		"programs are de-duplicated by the first 128 bits of their SHA-256 (a collision would drop a program; probability < 1e-24 at these sizes)",
	}
	gen := func(emit func(c11Case)) {
		seen := map[[16]byte]bool{}
		one := func(src string, kind int) bool {
			h := sha256.Sum256([]byte(src))
			var k [16]byte
			copy(k[:], h[:16])
			if seen[k] {
				return false
			}
			seen[k] = true
			emit(c11Case{src, kind})
			return true
		}
		var bases []string
		genSyn(c, space, func(t synCase) {
			if one(t.Src, t.Kind) && len(t.Src) <= mutMaxLen && (t.Kind == 1 || t.Kind == 0 && mutCorpus) {
				bases = append(bases, t.Src)
			}
		})
		c.Count("mutation_bases", len(bases))
		for _, b := range bases {
			c11Mutants(b, len(b) <= insMaxLen, func(m string) { one(m, 5) })
		}
	}
	complete := vc.Run(c, gen, func(t c11Case) *vc.Fail { return c11One(c, t) })
	c11FlushCounts(c)
	c.Finish(complete)
}

// c11Equal is a structural comparison of two trees over all exported fields
// (positions compared exactly). It is at least as fine as the dump, so a true
// result implies identical dumps; it avoids building the dump strings (and
// reflect.DeepEqual's cycle map) in the common equal case.
func c11Equal(a, b reflect.Value) bool {
	if a.Kind() != b.Kind() {
		return false
	}
	switch a.Kind() {
	case reflect.Pointer, reflect.Interface:
		if a.IsNil() || b.IsNil() {
			return a.IsNil() == b.IsNil()
		}
		if a.Kind() == reflect.Interface && a.Elem().Type() != b.Elem().Type() {
			return false
		}
		return c11Equal(a.Elem(), b.Elem())
	case reflect.Slice:
		if a.Len() != b.Len() {
			return false
		}
		for i := 0; i < a.Len(); i++ {
			if !c11Equal(a.Index(i), b.Index(i)) {
				return false
			}
		}
		return true
	case reflect.Struct:
		t := a.Type()
		if t != b.Type() {
			return false
		}
		if t == c11PosType {
			return a.Interface().(syntax.Pos) == b.Interface().(syntax.Pos)
		}
		for i := 0; i < t.NumField(); i++ {
			if t.Field(i).IsExported() && !c11Equal(a.Field(i), b.Field(i)) {
				return false
			}
		}
		return true
	case reflect.String:
		return a.String() == b.String()
	case reflect.Bool:
		return a.Bool() == b.Bool()
	case reflect.Int, reflect.Int8, reflect.Int16, reflect.Int32, reflect.Int64:
		return a.Int() == b.Int()
	case reflect.Uint, reflect.Uint8, reflect.Uint16, reflect.Uint32, reflect.Uint64:
		return a.Uint() == b.Uint()
	}
	return false
}

// c11SameTree reports whether two trees have identical dumps.
func c11SameTree(a, b *syntax.File) (same bool, da, db string) {
	if c11Equal(reflect.ValueOf(a), reflect.ValueOf(b)) {
		return true, "", ""
	}
	da, db = synt.Dump(a, c11DumpOpts), synt.Dump(b, c11DumpOpts)
	return da == db, da, db
}

var c11VariantIndex = func() map[string]int {
	m := map[string]int{}
	for i, v := range synt.Variants {
		m[v.Name] = i
	}
	return m
}()

func c11One(c *vc.Ctx, t c11Case) *vc.Fail {
	ws := c11GetWS()
	defer c11PutWS(ws)
	count := func(name string) { ws.counts[name]++ }
	var classFail, fail *vc.Fail
	report := func(f *vc.Fail) {
		if f.Class == "" {
			if fail == nil {
				fail = f
			}
		} else if classFail == nil {
			classFail = f
		}
	}
	qsrc := func() string { return fmt.Sprintf("%q", t.Src) }
	var valid [8]*syntax.File // indexed like synt.Variants
	nvalid := 0
	idx := c11VariantIndex
	for i, v := range synt.Variants {
		var f *syntax.File
		var err error
		if fl := guard(v.Name+" "+t.Src, func() { f, err = ws.parse(t.Src, v.Lang, 0) }); fl != nil {
			fl.Key = v.Name + " " + qsrc() + " panic"
			delete(ws.parsers, c11PKey{v.Lang, 0})
			report(fl)
			continue
		}
		if err != nil {
			count("invalid_" + v.Name)
			continue
		}
		count("valid_" + v.Name)
		valid[i] = f
		nvalid++
	}
	c.Eval(len(synt.Variants) - 1)
	if nvalid == 0 {
		count("programs_valid_nowhere")
		return fail
	}
	c.Distinct(t.Src)

	// clause 1: accepted as POSIX => no non-POSIX construct
	if f := valid[idx["posix"]]; f != nil {
		labels, arithExt := c11NonPOSIX(f)
		if arithExt > 0 {
			ws.counts["posix_arith_extension_ops"] += arithExt
		}
		if len(labels) > 0 {
			report(&vc.Fail{
				Class:  c11PosixClass(t.Src, labels),
				Key:    "posix " + qsrc() + " non-posix " + strings.Join(labels, ","),
				Msg:    fmt.Sprintf("%s is accepted with LangPOSIX but its tree contains %s", shortSrc(t.Src), strings.Join(labels, ", ")),
				Detail: map[string]string{"tree": synt.Dump(f, synt.DumpOpts{})},
			})
		}
		count("clause1_posix_trees_walked")
	}

	// clause 2: accepted as Bash => accepted as Bats with the same tree
	if f := valid[idx["bash"]]; f != nil {
		if strings.Contains(t.Src, "@test") {
			count("clause2_excluded_attest")
		} else {
			count("clause2_bash_bats_compared")
			if b := valid[idx["bats"]]; b == nil {
				_, err := ws.parse(t.Src, syntax.LangBats, 0)
				report(&vc.Fail{Key: "bats " + qsrc() + " rejected", Msg: fmt.Sprintf("%s is accepted as Bash but rejected as Bats: %v", shortSrc(t.Src), err)})
			} else if same, da, db := c11SameTree(f, b); !same {
				report(&vc.Fail{Key: "bats " + qsrc() + " tree", Msg: fmt.Sprintf("%s parses to different trees as Bash and as Bats", shortSrc(t.Src)),
					Detail: map[string]string{"bash": da, "bats": db}})
			}
		}
	}

	// clause 3: valid input => RecoverErrors(n) changes nothing
	for i, v := range synt.Variants {
		base := valid[i]
		if base == nil {
			continue
		}
		for _, n := range c11RecoverLimits {
			var f *syntax.File
			var err error
			key := func() string { return fmt.Sprintf("%s %s recover=%d", v.Name, qsrc(), n) }
			if fl := guard(v.Name+" "+t.Src, func() { f, err = ws.parse(t.Src, v.Lang, n) }); fl != nil {
				fl.Key = key() + " panic"
				delete(ws.parsers, c11PKey{v.Lang, n})
				report(fl)
				continue
			}
			c.Eval(1)
			count("clause3_recover_parses")
			if err != nil {
				report(&vc.Fail{Class: c11RecoverClass(t.Src, v.Name, true, base), Key: key() + " error", Msg: fmt.Sprintf("[%s] %s is valid but RecoverErrors(%d) returns an error: %v", v.Name, shortSrc(t.Src), n, err)})
				continue
			}
			if same, da, db := c11SameTree(base, f); !same {
				report(&vc.Fail{Class: c11RecoverClass(t.Src, v.Name, false, base), Key: key() + " tree", Msg: fmt.Sprintf("[%s] %s is valid but parses to a different tree with RecoverErrors(%d)", v.Name, shortSrc(t.Src), n),
					Detail: map[string]string{"plain": da, "recover": db}})
			}
		}
	}
	if fail != nil {
		return fail
	}
	if classFail != nil {
		return classFail
	}
	if t.Kind == 5 && nvalid >= 2 && nvalid < len(synt.Variants) {
		var names []string
		for i, v := range synt.Variants {
			if valid[i] != nil {
				names = append(names, v.Name)
			}
		}
		c.Sample(map[string]any{"src": t.Src, "valid_in": names})
	}
	return nil
}

// c11PosixClass names the family of a clause 1 failure: the set of
// non-POSIX constructs present in the accepted POSIX tree. A label that has
// no recorded finding stays a violation.
func c11PosixClass(src string, labels []string) string {
	return "posix-accepts-" + strings.Join(labels, "+")
}

// c11RecoverClass names the family of a clause 3 failure. The one known
// family: in LangZsh a '.' token where the closing "))" of an arithmetic
// expansion/command is expected is accepted silently by
// Parser.arithmMatchingErr (its `case period` only calls checkLang, which is a
// no-op for zsh), so an input whose arithmetic is never closed counts as
// "valid" without recovery, while a parser with RecoverErrors takes the
// recovery path earlier and reports an error. Predicate: variant zsh, the
// recovering parse returns an error, and the plain tree contains an
// arithmetic node whose Right position does not point at its closing token
// in the source. Anything else is an unclassified violation.
func c11RecoverClass(src, variant string, isErr bool, plain *syntax.File) string {
	if variant == "zsh" && isErr && c11ArithUnclosed(src, plain) {
		return "zsh-accepts-unclosed-arithm-before-period"
	}
	return ""
}

// c11ArithUnclosed reports whether f (parsed from src) contains an ArithmExp
// or ArithmCmd whose Right position is not at its closing token.
func c11ArithUnclosed(src string, f *syntax.File) bool {
	found := false
	at := func(p syntax.Pos, tok string) bool {
		o := int(p.Offset())
		return p.IsValid() && o+len(tok) <= len(src) && src[o:o+len(tok)] == tok
	}
	syntax.Walk(f, func(n syntax.Node) bool {
		switch x := n.(type) {
		case *syntax.ArithmExp:
			if x.Bracket && !at(x.Right, "]") || !x.Bracket && !at(x.Right, "))") {
				found = true
			}
		case *syntax.ArithmCmd:
			if !at(x.Right, "))") {
				found = true
			}
		}
		return !found
	})
	return found
}
