package checks

import (
	"fmt"
	"os"
	"regexp"
	"strings"

	"mvdan.cc/sh/v3/shell"

	"verif/mc/enum"
	"verif/mc/oracle"
	"verif/mc/vc"
)

func init() { Registry["C25"] = c25 }

// c25Case is one (function, string, environment) triple.
type c25Case struct {
	Fn  string `json:"fn"`  // "Expand" or "Fields"
	S   string `json:"s"`   // the input string
	Env int    `json:"env"` // 0: env==nil (process environment, V unset); 1: V="" (means unset); 2: V="x y"
}

var c25Alphabet = []string{
	"a", "$V", "${V}", "${V:-d}", "${V-d}", "${#V}", "$((1+2))", "'", `"`, `\`, "~", "{a,b}", " ", "$(", ")", "$", "*", `\$V`, "\n",
}

// Round 3: composite items. The alphabet above can form no operator with an
// argument word beyond ${V:-d} and no arithmetic beyond 1+2, although
// shell.Expand / shell.Fields run all of expand's machinery. The items below
// are whole expansions; they are enumerated in a second, small space (see
// c25Composites / c25GenComposite): every item alone, inside double quotes,
// and next to every item of the alphabet.

// c25ReplWords: replacement / default words of zero, one and several parts.
var c25ReplWords = []string{"", "d", "$V", `"$V"`, "$V-", "a$V", "$V$V", `"$V"z`, `"\$V"`, "'q'"}

// c25OtherOps: one or two forms of every other parameter expansion operator
// (each owned by C21), some with a multi-part argument word.
var c25OtherOps = []string{
	"${V#x}", "${V##* }", "${V%y}", "${V%% *}", `${V#"$V"}`, "${V%$V}", "${V#$V-}",
	"${V:1}", "${V:1:1}", "${V: -1}", "${V: -4}",
	"${V^}", "${V^^}", "${V,,}", "${V^^$V}",
	"${V:+d}", "${V+d}", "${V:+$V-}", "${V:-$V-}", `${V:-"$V"z}`, "${V-a$V}", "${V:-$V$V}",
	"${V/#x/d}", "${V/%y/d}",
	"${V:?e}", "${V?}", "${V:=d}", "${V@U}",
}

// c25ArithTexts: arithmetic with two (or three) operators of different
// precedence levels, both orders of every adjacent pair of levels, operand
// values for which the two groupings differ (single-digit literals only).
var c25ArithTexts = []string{
	"1|2^3&4", "2+3*4", "1<<2+1", "7&3==3", // mixed, as named in the round 3 brief
	"3*1**2", "1**2*3", // ** over * / %
	"1+1*2", "2*1+1", "7-6/2", "7%4-1", // * / % over + -
	"1+2<<1", "8>>1+1", // + - over << >>
	"1<2<<1", "2<<1<1", "2>1>>1", // << >> over < <= > >=
	"2==1<2", "3<2==0", "2!=1>=2", // < over == !=
	"6&2==2", "2==2&6", "6&2!=2", // == != over &
	"1^3&2", "2&3^1", // & over ^
	"1|1^1", "1^1|1", // ^ over |
	"2&&1|4", "4|1&&2", // | over &&
	"1||1&&0", "0&&1||1", // && over ||
	"1||0?2:3", "1?0:0||2", // || over ?:
	"1?2:3,4", "1,0?2:3", // ?: over ,
	"-2**2", "!1+1", "~1&1", "-1-1", "2- -1", // unary operators bind tightest
	"2**3**0", "8-3-2", "8/4/2", "1?2:0?3:4", // associativity
	"(1|2)^3", "2*(3+1)", // parentheses
}

func c25Composites() []string {
	var out []string
	for _, op := range []string{"/", "//"} {
		for _, pat := range []string{"x", "?", "*"} {
			for _, r := range c25ReplWords {
				out = append(out, "${V"+op+pat+"/"+r+"}")
			}
		}
	}
	out = append(out, c25OtherOps...)
	for _, e := range c25ArithTexts {
		out = append(out, "$(("+e+"))")
	}
	return out
}

// c25GenComposite: for every composite item N the strings N, "N", XN and NX
// (X any item of the alphabet), and with both (thorough) also XNY.
func c25GenComposite(both bool, f func(s string)) {
	for _, n := range c25Composites() {
		f(n)
		f(`"` + n + `"`)
		for _, x := range c25Alphabet {
			f(x + n)
			f(n + x)
		}
		if both {
			for _, x := range c25Alphabet {
				for _, y := range c25Alphabet {
					f(x + n + y)
				}
			}
		}
	}
}

const (
	c25Home = "/h"
	c25Pid  = "PID"
)

func c25EnvFunc(env int) func(string) string {
	if env == 0 {
		return nil // os.Getenv; the check sets up the process environment
	}
	return func(name string) string {
		switch name {
		case "V":
			if env == 2 {
				return "x y"
			}
			return ""
		case "HOME":
			return c25Home
		case "$":
			return c25Pid
		}
		return ""
	}
}

// c25TrailingBackslash: s ends in an unescaped backslash.
func c25TrailingBackslash(s string) bool {
	n := 0
	for i := len(s) - 1; i >= 0 && s[i] == '\\'; i-- {
		n++
	}
	return n%2 == 1
}

var c25FieldsOK = regexp.MustCompile(`^0:[0-9]+:<`)

func c25(c *vc.Ctx) {
	maxLen := vc.Pick(c, 4, 5)
	c.Rule = fmt.Sprintf("(1) composite items N = ${V op pat / repl} for op in {/ //}, pat in {x ? *}, repl in %q (words of 0, 1 and 2 parts), the other operators %q, and $((E)) for E in %q (two operators of different precedence levels, both orders of every adjacent pair of levels, unary operators, associativity, parentheses): the strings N, \"N\", XN, NX%s for X, Y any item of the alphabet below, x all three envs x both functions; (2) all strings of <=%d items over %q x env in {nil func with V absent from the process environment (strings of fewer than %d items only), V=\"\" (must mean unset), V=\"x y\"} x {shell.Expand, shell.Fields}; HOME=%s on both sides. Expand is compared with bash's `IFS= read -r -d '' R <<__E__` of the string (the newline the here-document appends is accounted for); Fields with the positional parameters after `set -f; set -- <s>` (for strings containing a newline: after `A=(<s>)`, where a newline is a word separator as in Parser.WordsSeq). error <=> bash error. Excluded and counted: skipped_trailing_backslash (a here-document body cannot end in an unescaped backslash: bash 5.2 yields a stray 0xFF byte at EOF; for Fields only when the string also has a newline); cmdsubst_refused (the string contains `$(` and shell.Expand/Fields returned an error: command substitution is unsupported by design, so any error is accepted; when it returns a result instead, that result is compared with bash). `$$` is normalised to the text PID on both sides (strings holding `$$` only). distinct = distinct (function, result or error kind)", c25ReplWords, c25OtherOps, c25ArithTexts, vc.Pick(c, "", ", XNY"), maxLen, c25Alphabet, maxLen, c25Home)
	c.Assumptions = []string{
		"bash 5.2.15 (LC_ALL=C.utf8) is the oracle; its stderr is ignored and an error is recognised by the result variable not being produced",
		"for env==nil the checker's own process environment is prepared (V unset, HOME=" + c25Home + ", $=PID)",
	}
	c.Reruns = 1
	os.Unsetenv("V")
	os.Unsetenv("IFS")
	os.Unsetenv("a")
	os.Setenv("HOME", c25Home)
	os.Setenv("$", c25Pid)
	tmp, err := os.MkdirTemp("", "c25-")
	if err != nil {
		panic(err)
	}
	// the bash process must have a pid with a digit that no expansion of the
	// alphabet can produce (results only contain the digits 0-3), so that
	// replacing the pid by PID cannot touch anything else. The composite
	// items do produce other digits; the pid is replaced only in strings that
	// hold "$$", and there a composite item is either not expanded at all
	// ($${V..}, $$((..)) : its text follows the pid literally) or comes
	// before the "$$"; all its numerals are single digits
	prelude := `case $$ in *[4-9]*) ;; *) bash "$0"; exit;; esac
HOME=` + c25Home + `; set -f; unset a d
`
	complete := vc.RunBatch(c, 2000, func(emit func(c25Case)) {
		// the composite items first: a budget-limited run must reach them
		c25GenComposite(!c.Quick(), func(s string) {
			for env := 0; env < 3; env++ {
				emit(c25Case{"Expand", s, env})
				emit(c25Case{"Fields", s, env})
			}
		})
		enum.Seqs(c25Alphabet, maxLen, func(seq []string) {
			s := strings.Join(seq, "")
			env0 := 0
			if len(seq) >= maxLen {
				env0 = 1 // the nil-function route only differs in the lookup; covered for the shorter strings
			}
			for env := env0; env < 3; env++ {
				emit(c25Case{"Expand", s, env})
				emit(c25Case{"Fields", s, env})
			}
		})
	}, func(batch []c25Case) []*vc.Fail {
		fails := make([]*vc.Fail, len(batch))
		type pend struct {
			idx   int
			shErr error
			shOut string
		}
		var cases []oracle.EvalCase
		var pends []pend
		for i, t := range batch {
			key := fmt.Sprintf("%s(%q) env=%d", t.Fn, t.S, t.Env)
			envf := c25EnvFunc(t.Env)
			setV := ""
			if t.Env == 2 {
				setV = "V='x y'; "
			}
			var code, want string
			var shErr error
			// the pid can only be part of a result when the string holds "$$"
			// (the composite items evaluate to digits outside 0-3, which a
			// blind replacement of the pid could hit)
			hasPid := strings.Contains(t.S, "$$")
			switch t.Fn {
			case "Expand":
				var out string
				if f := guard(key, func() { out, shErr = shell.Expand(t.S, envf) }); f != nil {
					fails[i] = f
					continue
				}
				if c25TrailingBackslash(t.S) {
					c.Count("skipped_trailing_backslash", 1)
					continue
				}
				want = "0:" + out + "\n"
				code = "set --; " + setV + "eval " + oracle.ShQuote("IFS= read -r -d '' R <<__E__\n"+t.S+"\n__E__")
				if hasPid {
					code += "; R=${R//$$/" + c25Pid + "}"
				} else {
					code += "; R=$R" // like the replacement above: leaves status 0 (read returns 1 at the end of the text)
				}
			case "Fields":
				var out []string
				if f := guard(key, func() { out, shErr = shell.Fields(t.S, envf) }); f != nil {
					fails[i] = f
					continue
				}
				want = fmt.Sprintf("0:%d:<%s>", len(out), strings.Join(out, "><"))
				if strings.Contains(t.S, "\n") {
					if c25TrailingBackslash(t.S) {
						c.Count("skipped_trailing_backslash", 1)
						continue
					}
					code = "set --; " + setV + "eval " + oracle.ShQuote("A=("+t.S+"\n)") + ` && set -- "${A[@]}"`
				} else {
					code = "set --; " + setV + "eval " + oracle.ShQuote("set -- "+t.S)
				}
				if hasPid {
					code += ` && { printf -v R '<%s>' "$@"; R="$#:${R//$$/` + c25Pid + `}"; }`
				} else {
					code += ` && { printf -v R '<%s>' "$@"; R="$#:$R"; }`
				}
			default:
				panic("bad fn " + t.Fn)
			}
			if strings.Contains(t.S, "${V:?") || strings.Contains(t.S, "${V?") {
				// a failing ${V:?w} ends a non-interactive bash: evaluate in
				// a subshell (the dot protects the trailing newline)
				code = "R=$(" + code + `; printf '%s.' "$R") && R=${R%.}`
			}
			if shErr != nil {
				c.Distinct(t.Fn + " error " + c25ErrKind(shErr))
				if strings.Contains(t.S, "$(") {
					c.Count("cmdsubst_refused", 1)
					continue
				}
				want = "ERR"
			} else {
				c.Distinct(t.Fn + " " + want)
				if len(t.S) > 8 && len(want) > 8 {
					c.Sample(map[string]any{"fn": t.Fn, "s": t.S, "env": t.Env, "result": want})
				}
			}
			cases = append(cases, oracle.EvalCase{Code: code, Want: want})
			pends = append(pends, pend{i, shErr, want})
		}
		diffs, err := oracle.BashEvalBatch(prelude, "unset V A", cases, tmp)
		if err != nil {
			panic(err)
		}
		for _, d := range diffs {
			p := pends[d.Index]
			t := batch[p.idx]
			bashOK := false
			if t.Fn == "Expand" {
				bashOK = strings.HasPrefix(d.Got, "0:") && strings.HasSuffix(d.Got, "\n")
			} else {
				bashOK = c25FieldsOK.MatchString(d.Got)
			}
			if p.shErr != nil && !bashOK {
				c.Count("both_error", 1)
				continue
			}
			key := fmt.Sprintf("%s(%q) env=%d", t.Fn, t.S, t.Env)
			var f *vc.Fail
			switch {
			case p.shErr != nil:
				f = &vc.Fail{Key: key + " sh-error", Msg: fmt.Sprintf("%s(%q) with %s: sh reports %q, bash gives %q", t.Fn, t.S, c25EnvName(t.Env), p.shErr, d.Got)}
			case !bashOK:
				f = &vc.Fail{Key: key + " bash-error", Msg: fmt.Sprintf("%s(%q) with %s: sh gives %q, bash reports an error (%q)", t.Fn, t.S, c25EnvName(t.Env), p.shOut, d.Got)}
			default:
				f = &vc.Fail{Key: key + " differs", Msg: fmt.Sprintf("%s(%q) with %s: sh gives %q, bash gives %q", t.Fn, t.S, c25EnvName(t.Env), p.shOut, d.Got)}
			}
			f.Class = c25Classify(t, p.shErr, p.shOut, bashOK, d.Got)
			fails[p.idx] = f
		}
		return fails
	})
	os.RemoveAll(tmp)
	c.Finish(complete)
}

func c25EnvName(env int) string {
	return [...]string{"env=nil (V unset)", `V=""`, `V="x y"`}[env]
}

var c25PosRx = regexp.MustCompile(`[0-9]+:[0-9]+`)

func c25ErrKind(err error) string {
	return c25PosRx.ReplaceAllString(err.Error(), "L:C")
}
