package checks

import (
	"fmt"
	"os"
	"path/filepath"
	"sort"
	"strconv"
	"strings"
	"sync"

	"mvdan.cc/sh/v3/syntax"

	"verif/mc/synt"
	"verif/mc/vc"
)

type c26Edit struct {
	from, to int
	text     string
	what     string
}

// c26LiteralEdits lists the 1-edit literal/argument mutations of a program:
// every all-digits literal (outside redirection fd numbers) is replaced by its
// two integer neighbours; every literal argument of a simple command is
// deleted, and in the thorough tier also replaced by x and '' and duplicated.
func c26LiteralEdits(src string, f *syntax.File, thorough bool) []c26Edit {
	var edits []c26Edit
	fdLits := map[*syntax.Lit]bool{}
	argLits := map[*syntax.Lit]bool{}
	syntax.Walk(f, func(n syntax.Node) bool {
		switch n := n.(type) {
		case *syntax.Redirect:
			if n.N != nil {
				fdLits[n.N] = true
			}
		case *syntax.CallExpr:
			for _, w := range n.Args[min(1, len(n.Args)):] {
				if len(w.Parts) == 1 {
					if l, ok := w.Parts[0].(*syntax.Lit); ok {
						argLits[l] = true
					}
				}
			}
		}
		return true
	})
	syntax.Walk(f, func(n syntax.Node) bool {
		l, ok := n.(*syntax.Lit)
		if !ok || fdLits[l] {
			return true
		}
		from, to := int(l.Pos().Offset()), int(l.End().Offset())
		if from < 0 || to > len(src) || from >= to || src[from:to] != l.Value {
			return true // escaped newlines etc.: the text is not the value; leave alone
		}
		if v, err := strconv.Atoi(l.Value); err == nil && len(l.Value) <= 6 && (l.Value == "0" || l.Value[0] != '0') && l.Value[0] != '-' && l.Value[0] != '+' {
			edits = append(edits, c26Edit{from, to, strconv.Itoa(v + 1), "int+1"})
			if v > 0 {
				edits = append(edits, c26Edit{from, to, strconv.Itoa(v - 1), "int-1"})
			}
		}
		if argLits[l] {
			edits = append(edits, c26Edit{from, to, "", "delete-arg"})
			if thorough {
				edits = append(edits, c26Edit{from, to, "x", "arg->x"})
				edits = append(edits, c26Edit{from, to, "''", "arg->''"})
				edits = append(edits, c26Edit{from, to, l.Value + " " + l.Value, "dup-arg"})
			}
		}
		return true
	})
	return edits
}

// c26GenMutants checks every seed (interp vs bash, unmutated), records the
// ones that disagree, and emits the mutants of the agreeing ones.
func c26GenMutants(c *vc.Ctx, thorough bool, root string, mu *sync.Mutex, disagree *[]string, emit func(c26Case)) {
	seeds := synt.InterpCorpus()
	maxLen := vc.Pick(c, 80, 400)
	type seedInfo struct {
		src   string
		f     *syntax.File
		agree bool
	}
	infos := make([]seedInfo, len(seeds))
	var wg sync.WaitGroup
	ch := make(chan int)
	nw := c.Workers
	for w := 0; w < nw; w++ {
		wg.Add(1)
		go func() {
			defer wg.Done()
			for i := range ch {
				src := seeds[i]
				infos[i].src = src
				if len(src) > maxLen {
					c.Count("seeds_over_length_bound", 1)
					continue
				}
				if strings.ContainsAny(src, "\x00\x01") {
					c.Count("seeds_not_a_program", 1)
					continue
				}
				f, err := syntax.NewParser(syntax.Variant(syntax.LangBash)).Parse(strings.NewReader(src), "")
				if err != nil {
					c.Count("seeds_parse_error", 1)
					continue
				}
				if why := c26OutsideSubset(f, src); why != "" {
					c.Count("seeds_outside_subset", 1)
					continue
				}
				if c.Expired() {
					continue
				}
				dir := filepath.Join(root, fmt.Sprintf("seed%d", i))
				os.MkdirAll(filepath.Join(dir, "i"), 0o755)
				os.MkdirAll(filepath.Join(dir, "b"), 0o755)
				ir := c26Interp(src, filepath.Join(dir, "i"))
				br, err := c26Bash(src, filepath.Join(dir, "b"), c26Timeout)
				os.RemoveAll(dir)
				c.Eval(1)
				if err != nil || br.Timeout || (ir.Fatal != "" && !ir.Panicked) {
					c.Count("seeds_timeout_or_fatal", 1)
					continue
				}
				if ir.Panicked || ir.Stdout != br.Out || ir.Status != br.Status {
					c.Count("seeds_disagreeing_unmutated", 1)
					mu.Lock()
					*disagree = append(*disagree, src)
					mu.Unlock()
					continue
				}
				c.Count("seeds_agreeing", 1)
				infos[i].f, infos[i].agree = f, true
			}
		}()
	}
	for i := range seeds {
		ch <- i
	}
	close(ch)
	wg.Wait()
	mu.Lock()
	sort.Slice(*disagree, func(i, j int) bool {
		a, b := (*disagree)[i], (*disagree)[j]
		if len(a) != len(b) {
			return len(a) < len(b)
		}
		return a < b
	})
	mu.Unlock()
	n := 0
	for _, si := range infos {
		if !si.agree {
			continue
		}
		seen := map[string]bool{si.src: true}
		for _, e := range c26LiteralEdits(si.src, si.f, thorough) {
			m := si.src[:e.from] + e.text + si.src[e.to:]
			if seen[m] {
				continue
			}
			seen[m] = true
			if mf, err := syntax.NewParser(syntax.Variant(syntax.LangBash)).Parse(strings.NewReader(m), ""); err == nil {
				if why := c26OutsideSubset(mf, m); why != "" {
					c.Count("skipped_mutant_outside_subset", 1)
					continue
				}
			}
			n++
			emit(c26Case{"m", fmt.Sprintf("%s@%d of %q", e.what, e.from, si.src), m})
		}
	}
	c.Extra["corpus_mutants"] = n
	c.Extra["corpus_seeds"] = len(seeds)
}
