package checks

import (
	"bytes"
	"context"
	"encoding/json"
	"fmt"
	"os"
	"os/exec"
	"path/filepath"
	"strconv"
	"strings"
	"sync"
	"sync/atomic"
	"syscall"
	"time"

	"mvdan.cc/sh/v3/syntax"

	"verif/mc/oracle"
	"verif/mc/synt"
	"verif/mc/vc"
)

func init() { Registry["C26"] = c26 }

// c26Case is one program. Kind "g" = grammar program, "m" = 1-edit mutant of
// an interpreter-test program, "s" = unmutated interpreter-test program
// (seed; counted, never judged).
type c26Case struct {
	Kind string `json:"kind"`
	Desc string `json:"desc"`
	Src  string `json:"src"`
}

var c26Env = []string{"LC_ALL=C.utf8", "PATH=/nonexistent", "HOME=/nonexistent"}

type c26Res struct {
	Out     string
	Status  int
	Timeout bool
}

// Development aid: VERIF_C26_CACHE=<file> keeps bash results (JSON lines) so
// that classification work does not pay for bash again. A run that uses it
// records a cap note (never claimed exhaustive).
var c26Cache struct {
	sync.Mutex
	on bool
	m  map[string]c26Res
	f  *os.File
}

func c26CacheOpen(path string) {
	c26Cache.on = true
	c26Cache.m = map[string]c26Res{}
	if data, err := os.ReadFile(path); err == nil {
		for _, ln := range strings.Split(string(data), "\n") {
			var e struct {
				K string
				R c26Res
			}
			if json.Unmarshal([]byte(ln), &e) == nil && e.K != "" {
				c26Cache.m[e.K] = e.R
			}
		}
	}
	c26Cache.f, _ = os.OpenFile(path, os.O_APPEND|os.O_CREATE|os.O_WRONLY, 0o644)
}

func c26CacheGet(k string) (c26Res, bool) {
	if !c26Cache.on {
		return c26Res{}, false
	}
	c26Cache.Lock()
	defer c26Cache.Unlock()
	r, ok := c26Cache.m[k]
	return r, ok
}

func c26CachePut(k string, r c26Res) {
	if !c26Cache.on || r.Timeout {
		return
	}
	c26Cache.Lock()
	defer c26Cache.Unlock()
	c26Cache.m[k] = r
	if c26Cache.f != nil {
		b, _ := json.Marshal(map[string]any{"K": k, "R": r})
		c26Cache.f.Write(append(b, '\n'))
	}
}

// c26Bash runs one program as a script file of its own bash process, in dir.
func c26Bash(src, dir string, to time.Duration) (c26Res, error) {
	if r, ok := c26CacheGet("S\x00" + src); ok {
		return r, nil
	}
	r, err := c26BashRun(src, dir, to)
	if err == nil {
		c26CachePut("S\x00"+src, r)
	}
	return r, err
}

// c26OwnGroup makes bash the leader of a new process group, and the timeout
// kill the whole group: a generated program may fork subshells or background
// jobs that loop, and killing only bash itself left them spinning for hours.
func c26OwnGroup(cmd *exec.Cmd) {
	cmd.SysProcAttr = &syscall.SysProcAttr{Setpgid: true}
	cmd.Cancel = func() error { return syscall.Kill(-cmd.Process.Pid, syscall.SIGKILL) }
}

// c26KillGroup removes whatever the finished bash left behind in its group.
func c26KillGroup(cmd *exec.Cmd) {
	if cmd.Process != nil {
		syscall.Kill(-cmd.Process.Pid, syscall.SIGKILL)
	}
}

func c26BashRun(src, dir string, to time.Duration) (c26Res, error) {
	f, err := os.CreateTemp("", "c26-*.sh")
	if err != nil {
		return c26Res{}, err
	}
	defer os.Remove(f.Name())
	f.WriteString(src)
	f.Close()
	ctx, cancel := context.WithTimeout(context.Background(), to)
	defer cancel()
	cmd := exec.CommandContext(ctx, "bash", f.Name())
	cmd.Env = c26Env
	cmd.Dir = dir
	var out bytes.Buffer
	cmd.Stdout = &out
	cmd.WaitDelay = time.Second
	c26OwnGroup(cmd)
	err = cmd.Run()
	c26KillGroup(cmd)
	if ctx.Err() != nil {
		return c26Res{Timeout: true}, nil
	}
	if ee, ok := err.(*exec.ExitError); ok {
		return c26Res{Out: out.String(), Status: ee.ExitCode()}, nil
	}
	return c26Res{Out: out.String()}, err
}

// c26BashBatch runs the programs as `( cd dir_i; program ) 2>/dev/null`
// subshells of ONE bash process (fork is the dominant cost here) and splits
// the output at \x01 markers. ok=false when the stream is not well formed (a
// program killed or confused the outer shell) or the process timed out: the
// caller then falls back to one process per program.
func c26BashBatch(srcs []string, dirs []string, to time.Duration) (res []c26Res, ok bool) {
	if c26Cache.on {
		res = make([]c26Res, len(srcs))
		var msrc, mdirs []string
		var midx []int
		for i, s := range srcs {
			if r, ok := c26CacheGet("B\x00" + s); ok {
				res[i] = r
			} else {
				msrc, mdirs, midx = append(msrc, s), append(mdirs, dirs[i]), append(midx, i)
			}
		}
		if len(msrc) > 0 {
			rs, ok := c26BashBatchRun(msrc, mdirs, to)
			if !ok {
				return nil, false
			}
			for j, i := range midx {
				res[i] = rs[j]
				c26CachePut("B\x00"+msrc[j], rs[j])
			}
		}
		return res, true
	}
	return c26BashBatchRun(srcs, dirs, to)
}

func c26BashBatchRun(srcs []string, dirs []string, to time.Duration) (res []c26Res, ok bool) {
	var sb strings.Builder
	for i, s := range srcs {
		sb.WriteString("(\ncd " + oracle.ShQuote(dirs[i]) + " || exit 99\n")
		sb.WriteString(s)
		if !strings.HasSuffix(s, "\n") {
			sb.WriteString("\n")
		}
		fmt.Fprintf(&sb, ") 2>/dev/null </dev/null\nprintf '\\1%%s\\1%%s\\1' %d $?\n", i)
	}
	f, err := os.CreateTemp("", "c26b-*.sh")
	if err != nil {
		panic(err)
	}
	defer os.Remove(f.Name())
	f.WriteString(sb.String())
	f.Close()
	ctx, cancel := context.WithTimeout(context.Background(), to)
	defer cancel()
	cmd := exec.CommandContext(ctx, "bash", f.Name())
	cmd.Env = c26Env
	cmd.Dir = dirs[0]
	var out bytes.Buffer
	cmd.Stdout = &out
	cmd.WaitDelay = time.Second
	c26OwnGroup(cmd)
	cmd.Run()
	c26KillGroup(cmd)
	if ctx.Err() != nil {
		return nil, false
	}
	toks := strings.Split(out.String(), "\x01")
	if len(toks) != 3*len(srcs)+1 || toks[len(toks)-1] != "" {
		return nil, false
	}
	res = make([]c26Res, len(srcs))
	for i := range srcs {
		if toks[3*i+1] != strconv.Itoa(i) {
			return nil, false
		}
		st, err := strconv.Atoi(toks[3*i+2])
		if err != nil {
			return nil, false
		}
		res[i] = c26Res{Out: toks[3*i], Status: st}
	}
	return res, true
}

func c26NeedsDir(src string) bool {
	return strings.ContainsAny(src, "<>") || strings.Contains(src, "cd ")
}

var c26DirSeq atomic.Int64

// c26Timeout is a hang guard for one bash process running one program (not
// an oracle): generous because fork can take 0.2 s on a loaded machine.
const c26Timeout = 60 * time.Second

func c26Interp(src, dir string) oracle.InterpResult {
	return oracle.RunInterp(src, oracle.InterpOpts{Dir: dir, Env: c26Env, NoExec: true, Timeout: 10 * time.Second})
}

func c26(c *vc.Ctx) {
	thorough := !c.Quick()
	c.Reruns = 1
	c26BuildAtoms()
	if p := os.Getenv("VERIF_C26_CACHE"); p != "" {
		c26CacheOpen(p)
		c.CapNote("VERIF_C26_CACHE is set: bash results may come from a previous run (development aid)")
	}
	c.Rule = "generated families, run first (c26_fam.go): (case) every case clause of 1..3 items (thorough 4), item = pattern kind {selective *k*, catch-all *} x terminator {;; ;& ;;& none-if-last} with body `echo k`, run for every match vector of the subject word (quick: all patterns selective, or the catch-all last), plus one failing / empty body, the same under set -e with one subject per program, and behind a function call / in a subshell (thorough: $( ), pipeline, bare); (state) inherited state x=X a=(A B C) sparse s=([1]=Q [2]=R) declare -A m f() positional parameters, options and cwd set up first, one non-initialising mutation (thorough 32, quick 12: element assignment, append, element append, unset element, assoc element/new key/unset key, x+=, unset x, set --, function redefinition, set -f) inside one of 17 contexts (quick 12: plain, group, function, subshell, $( ), first/middle/last pipeline stage, background job, function with subshell body / in a pipeline / in the background), global and function-local state, followed by a state epilogue (scalars, ${a[*]} ${!a[*]} ${#a[@]}, ${m[key]}, $# $*, f, $-, pipefail, cwd); thorough also two mutations in one context and a mutation in a child context followed by one in the parent; (chain) every && / || chain of 2..3 commands (thorough 4) over all status vectors, bare and negated, every if/elif/else chain of that length over all condition vectors, break/continue N for 1 <= N <= depth <= 3 (thorough 4) in for and while loops. Then " + fmt.Sprintf("grammar G_exec: %d feature atoms (control flow, functions/return, locals, subshells, command substitution, pipelines of builtins, here-docs/strings, file redirections, case, [[ ]], test, arrays, set -e/pipefail, EXIT/ERR traps, break/continue levels; %d of them 'core', %d 'setup') composed through %d unary and %d binary contexts; quick: every atom in every unary context alone and after each of 4 setup atoms (set -e, pipefail, EXIT trap, ERR trap), and every binary context over core x core; thorough: all setups in the first family, binary contexts over all x core and core x all, core setup + binary(core,core), two nested unary contexts, and two of the 4 setups + unary(core). Every program ends with `echo end:$?`. Plus the 1-edit literal mutants (quick: integer neighbours and deletion of literal arguments of seeds <= 80 bytes; thorough: also replacement by x / '' and duplication, all seeds) of the string literals of interp/interp_test.go that parse, terminate, and already agree with bash unmutated. distinct = distinct (stdout,status) results of the interpreter", len(c26Atoms), c26CountAtoms(func(a c26Atom) bool { return a.Core }), c26CountAtoms(func(a c26Atom) bool { return a.Setup }), len(c26Unary), len(c26Binary))
	c.Assumptions = []string{
		"bash 5.2.15 is the oracle; stderr is ignored on both sides; environment LC_ALL=C.utf8 PATH=/nonexistent HOME=/nonexistent, stdin empty, cwd a fresh scratch directory",
		"external commands are unavailable on both sides (interp: exec handler returning 127; bash: empty PATH), so only builtins run",
		"for throughput a batch of programs runs as `( cd dir; program ) 2>/dev/null` subshells of one bash process; every disagreement is re-judged with the program as the script of its own bash process before it is reported, so batching can hide but never invent a divergence",
		"a program on which bash or the interpreter exceeds its hang guard (interpreter 10 s, bash 60 s) is counted as skipped_timeout, not judged",
	}
	root, err := os.MkdirTemp("", "c26-")
	if err != nil {
		panic(err)
	}
	defer os.RemoveAll(root)

	var seedMu sync.Mutex
	var seedDisagree []string

	gen := func(emit func(c26Case)) {
		n := 0
		filter := os.Getenv("VERIF_C26_FILTER") // development aid: only programs whose description contains it
		if filter != "" {
			c.CapNote("VERIF_C26_FILTER=%q restricts the enumeration", filter)
		}
		stride, seq := 0, 0
		if v := os.Getenv("VERIF_C26_STRIDE"); v != "" { // development aid: every k-th program only
			stride, _ = strconv.Atoi(v)
			c.CapNote("VERIF_C26_STRIDE=%d restricts the enumeration", stride)
		}
		genProgs := c26GenPrograms
		if os.Getenv("VERIF_C26_NOGRAMMAR") != "" { // development aid
			genProgs = func(bool, func(string, string)) {}
			c.CapNote("VERIF_C26_NOGRAMMAR is set")
		}
		genProgs(thorough, func(desc, src string) {
			if filter == "@plain" {
				if strings.ContainsAny(desc, "(;") {
					return
				}
			} else if filter != "" && !strings.Contains(desc, filter) {
				return
			}
			seq++
			if stride > 1 && seq%stride != 0 {
				return
			}
			n++
			emit(c26Case{"g", desc, src})
		})
		c.Extra["grammar_programs"] = n
		if c.Replay == "" && os.Getenv("VERIF_C26_NOCORPUS") == "" {
			c26GenMutants(c, thorough, root, &seedMu, &seedDisagree, emit)
		}
	}
	run := func(batch []c26Case) []*vc.Fail {
		fails := make([]*vc.Fail, len(batch))
		bdir := filepath.Join(root, fmt.Sprintf("b%d", c26DirSeq.Add(1)))
		os.MkdirAll(bdir, 0o755)
		defer os.RemoveAll(bdir)
		mk := func(tag string, i int, need bool) string {
			if !need {
				return bdir
			}
			d := filepath.Join(bdir, fmt.Sprintf("%s%d", tag, i))
			os.Mkdir(d, 0o755)
			return d
		}
		ires := make([]oracle.InterpResult, len(batch))
		bres := make([]c26Res, len(batch))
		judged := make([]bool, len(batch))
		var bsrc, bdirs []string
		var bidx []int
		for i, t := range batch {
			need := c26NeedsDir(t.Src) || t.Kind != "g" // corpus programs glob and touch files: always a directory of their own
			ires[i] = c26Interp(t.Src, mk("i", i, need))
			if ires[i].ParseErr != "" {
				if t.Kind == "g" {
					fails[i] = vc.Failf("parse "+t.Desc, "grammar program does not parse (harness): %s: %q", ires[i].ParseErr, t.Src)
				} else {
					c.Count("skipped_mutant_parse_error", 1)
				}
				continue
			}
			if ires[i].Fatal != "" && !ires[i].Panicked && strings.Contains(ires[i].Fatal, "deadline") {
				if os.Getenv("VERIF_DEBUG") != "" {
					fmt.Fprintf(os.Stderr, "interp timeout: [%s] %q\n", t.Desc, t.Src)
				}
				c.Count("skipped_timeout", 1)
				continue
			}
			if os.Getenv("VERIF_C26_CACHEONLY") != "" { // development aid
				r, ok := c26CacheGet("S\x00" + t.Src)
				if !ok {
					r, ok = c26CacheGet("B\x00" + t.Src)
				}
				if !ok {
					c.Count("skipped_not_cached", 1)
					continue
				}
				bres[i], judged[i] = r, true
				continue
			}
			if t.Kind == "g" && len(batch) > 1 {
				bsrc = append(bsrc, t.Src)
				bdirs = append(bdirs, mk("b", i, need))
				bidx = append(bidx, i)
				continue
			}
			r, err := c26Bash(t.Src, mk("b", i, true), c26Timeout)
			if err != nil {
				panic(err)
			}
			if r.Timeout {
				c.Count("skipped_timeout", 1)
				continue
			}
			bres[i], judged[i] = r, true
		}
		if len(bsrc) > 0 {
			rs, ok := c26BashBatch(bsrc, bdirs, 5*time.Minute)
			if !ok {
				c.Count("batch_fallbacks", 1)
				for j, i := range bidx {
					r, err := c26Bash(bsrc[j], bdirs[j], c26Timeout)
					if err != nil {
						panic(err)
					}
					if r.Timeout {
						c.Count("skipped_timeout", 1)
						continue
					}
					bres[i], judged[i] = r, true
				}
			} else {
				for j, i := range bidx {
					bres[i], judged[i] = rs[j], true
				}
			}
		}
		for i, t := range batch {
			if !judged[i] {
				continue
			}
			ir, br := ires[i], bres[i]
			if ir.Panicked {
				fails[i] = &vc.Fail{Key: "panic " + t.Src, Msg: fmt.Sprintf("interpreter panics on %q: %s", t.Src, c26FirstLine(ir.Fatal)), Class: "panic", Detail: ir.Fatal}
				continue
			}
			c.Distinct(fmt.Sprintf("%d:%s", ir.Status, ir.Stdout))
			if ir.Stdout == br.Out && ir.Status == br.Status {
				if t.Kind == "g" {
					c.Count("agree_grammar", 1)
				} else {
					c.Count("agree_mutants", 1)
				}
				c.Sample(map[string]any{"desc": t.Desc, "src": t.Src, "stdout": ir.Stdout, "status": ir.Status})
				continue
			}
			if len(batch) > 1 && t.Kind == "g" && os.Getenv("VERIF_C26_CACHEONLY") == "" {
				// confirm with a bash process of its own before reporting
				r, err := c26Bash(t.Src, mk("c", i, true), c26Timeout)
				if err != nil {
					panic(err)
				}
				if r.Timeout {
					c.Count("skipped_timeout", 1)
					continue
				}
				if r.Out != br.Out || r.Status != br.Status {
					c.Count("batch_vs_standalone_bash_differs", 1)
				}
				br = r
				if ir.Stdout == br.Out && ir.Status == br.Status {
					c.Count("agree_grammar", 1)
					continue
				}
			}
			class := c26Classify(t, ir, br, func(f *syntax.File) oracle.InterpResult {
				d := mk("x", i, true)
				os.RemoveAll(d)
				os.Mkdir(d, 0o755)
				return oracle.RunInterpFile(f, oracle.InterpOpts{Dir: d, Env: c26Env, NoExec: true, Timeout: 10 * time.Second})
			})
			fails[i] = &vc.Fail{
				Key:    fmt.Sprintf("%q interp=%d:%q", t.Src, ir.Status, ir.Stdout),
				Msg:    fmt.Sprintf("[%s] %q: bash stdout %q status %d, interp stdout %q status %d", t.Desc, t.Src, br.Out, br.Status, ir.Stdout, ir.Status),
				Class:  class,
				Detail: map[string]any{"bash_stdout": br.Out, "bash_status": br.Status, "interp_stdout": ir.Stdout, "interp_status": ir.Status, "interp_stderr": ir.Stderr, "interp_fatal": ir.Fatal},
			}
		}
		return fails
	}
	// The generated families (c26_fam.go) go first and in small batches: they
	// are a few hundred programs, and a run cut by its time budget must have
	// seen all of them before the large atom grammar starts.
	genFam := func(emit func(c26Case)) {
		filter := os.Getenv("VERIF_C26_FILTER")
		n := map[string]int{}
		c26GenFamilies(thorough, func(desc, src string) {
			if filter == "@plain" || (filter != "" && !strings.Contains(desc, filter)) {
				return
			}
			n[desc[:strings.IndexByte(desc, '-')]]++
			emit(c26Case{"g", desc, src})
		})
		c.Extra["family_programs"] = n
	}
	if os.Getenv("VERIF_C26_NOFAM") != "" { // development aid: the check as it was before round 3
		genFam = func(func(c26Case)) {}
		c.CapNote("VERIF_C26_NOFAM is set")
	}
	complete := vc.RunBatch(c, 25, genFam, run)
	if c.Replay == "" && os.Getenv("VERIF_C26_FAMONLY") == "" {
		complete = vc.RunBatch(c, 100, gen, run) && complete
	} else if c.Replay == "" {
		c.CapNote("VERIF_C26_FAMONLY is set")
	}
	seedMu.Lock()
	if len(seedDisagree) > 0 {
		c.Extra["seeds_disagreeing_unmutated_examples"] = seedDisagree[:min(len(seedDisagree), 40)]
	}
	seedMu.Unlock()
	os.RemoveAll(root) // Finish exits the process: the deferred removal above would not run
	c.Finish(complete)
}

func c26CountAtoms(p func(c26Atom) bool) int {
	n := 0
	for _, a := range c26Atoms {
		if p(a) {
			n++
		}
	}
	return n
}

func c26FirstLine(s string) string {
	if i := strings.IndexByte(s, '\n'); i >= 0 {
		return s[:i]
	}
	return s
}

var _ = synt.InterpCorpus
