package checks

import (
	"math/big"
	"strconv"
	"strings"
)

// A small reference evaluator for bash arithmetic with unbounded integers.
// It is used ONLY to decide which C20 cases are outside the property's
// quantifier: evaluation reaches a signed 64-bit overflow or a shift count
// outside 0..63 before it reaches any error. Its structure follows bash's
// expr.c (one-pass recursive descent that evaluates while parsing, `noeval`
// for short-circuited operands, `lasttok` deciding what is assignable) so that
// the order "overflow first or error first" is the one bash has.

type arRefState struct {
	vars map[string]string // x, y, e, u, i ... and "arr[0]" style elements
	// a negative subscript beyond the first element was used: bash prints a
	// diagnostic and goes on; what it then computes is not predicted
	unpredicted bool
}

// arrLen is the highest index of arr plus one.
func (st *arRefState) arrLen() int64 {
	n := int64(0)
	for k, v := range st.vars {
		if strings.HasPrefix(k, "arr[") && v != "" {
			if i, err := strconv.ParseInt(k[4:len(k)-1], 10, 64); err == nil && i+1 > n {
				n = i + 1
			}
		}
	}
	return n
}

func newArRefState() *arRefState {
	return &arRefState{vars: map[string]string{
		"x": "5", "y": "-3", "e": "1+2", "arr[0]": "4", "arr[1]": "5", "arr[2]": "6",
	}}
}

type arRefOutcome int

const (
	arRefValue    arRefOutcome = iota // evaluated inside int64
	arRefError                        // an error before any overflow
	arRefExcluded                     // overflow / bad shift count reached first
)

type arRefErr struct {
	msg    string
	noeval bool // raised inside an operand that is not evaluated (short-circuit, untaken ?: branch)
}
type arRefExcl struct{ why string }

// arRefEval evaluates src in state st (which is updated).
func arRefEval(st *arRefState, src string) (val int64, out arRefOutcome, why string) {
	defer func() {
		if r := recover(); r != nil {
			switch r := r.(type) {
			case arRefErr:
				out, why = arRefError, r.msg
				if r.noeval {
					why += " [not evaluated]"
				}
			case arRefExcl:
				out, why = arRefExcluded, r.why
			default:
				panic(r)
			}
		}
	}()
	p := &arRefParser{st: st}
	return p.subexpr(src), arRefValue, ""
}

const (
	rtEOF = iota
	rtNum
	rtStr
	rtOp // operator, text in p.op
	rtPreInc
	rtPreDec
	rtPostInc
	rtPostDec
	rtOpAssign // compound assignment, operator in p.asg
	rtCond     // pseudo token: a ?: expression was just completed
)

type arRefParser struct {
	st     *arRefState
	noeval int
	depth  int

	src    string
	pos    int
	cur    int
	last   int
	op     string
	asg    string
	tokval int64
	tokstr string
	lasttp int // position where the current token started
}

type arRefCtx struct {
	src             string
	pos, cur, last  int
	op, asg, tokstr string
	tokval          int64
	lasttp          int
}

func (p *arRefParser) save() arRefCtx {
	return arRefCtx{p.src, p.pos, p.cur, p.last, p.op, p.asg, p.tokstr, p.tokval, p.lasttp}
}
func (p *arRefParser) restore(c arRefCtx) {
	p.src, p.pos, p.cur, p.last, p.op, p.asg, p.tokstr, p.tokval, p.lasttp = c.src, c.pos, c.cur, c.last, c.op, c.asg, c.tokstr, c.tokval, c.lasttp
}

func (p *arRefParser) err(msg string) { panic(arRefErr{msg, p.noeval > 0}) }

func (p *arRefParser) subexpr(src string) int64 {
	if p.depth > 64 {
		p.err("expression recursion level exceeded")
	}
	if strings.TrimSpace(src) == "" {
		return 0
	}
	saved := p.save()
	p.depth++
	p.src, p.pos, p.cur, p.last, p.tokstr = src, 0, rtEOF, rtEOF, ""
	p.readtok()
	v := p.expcomma()
	if p.cur != rtEOF {
		p.err("syntax error in expression")
	}
	p.depth--
	p.restore(saved)
	return v
}

func isIdStart(c byte) bool { return c == '_' || c >= 'a' && c <= 'z' || c >= 'A' && c <= 'Z' }
func isIdChar(c byte) bool  { return isIdStart(c) || c >= '0' && c <= '9' }
func isBlank(c byte) bool   { return c == ' ' || c == '\t' || c == '\n' }

func (p *arRefParser) isOp(s string) bool { return p.cur == rtOp && p.op == s }

func (p *arRefParser) readtok() {
	s := p.src
	i := p.pos
	for i < len(s) && isBlank(s[i]) {
		i++
	}
	p.lasttp = i
	if i >= len(s) {
		p.last, p.cur, p.pos = p.cur, rtEOF, i
		return
	}
	c := s[i]
	switch {
	case isIdStart(c):
		j := i
		for j < len(s) && isIdChar(s[j]) {
			j++
		}
		name := s[i:j]
		if j < len(s) && s[j] == '[' {
			k := strings.IndexByte(s[j:], ']')
			if k < 0 {
				p.err("bad array subscript")
			}
			// the subscript is evaluated on its own (it is a literal here)
			idx := p.subexpr(s[j+1 : j+k])
			if idx < 0 { // counted from the end
				if idx += p.st.arrLen(); idx < 0 {
					p.st.unpredicted = true
				}
			}
			name = name + "[" + strconv.FormatInt(idx, 10) + "]"
			j += k + 1
		}
		p.pos = j
		// peek at the next token (without evaluating anything): a plain `=`
		// means the variable's value is not needed
		prev, prevLast := p.cur, p.last
		sv := p.save()
		p.tokstr = ""
		p.cur = rtStr
		p.noeval++
		p.readtok()
		p.noeval--
		peekEq := p.isOp("=")
		p.restore(sv)
		p.pos = j
		p.tokstr = name
		// bash tests the token *before* the previous one here ("not strictly
		// correct" says its source); it only matters for `++x = ...`
		if prevLast == rtPreInc || prevLast == rtPreDec || !peekEq {
			p.tokval = p.streval(name)
		} else {
			p.tokval = 0
		}
		p.last, p.cur = prev, rtStr
		return
	case c >= '0' && c <= '9':
		j := i
		for j < len(s) && (isIdChar(s[j]) || s[j] == '#' || s[j] == '@') {
			j++
		}
		p.tokval = p.strlong(s[i:j])
		p.pos = j
		p.last, p.cur = p.cur, rtNum
		return
	}
	// operators
	c1 := byte(0)
	if i+1 < len(s) {
		c1 = s[i+1]
	}
	c2 := byte(0)
	if i+2 < len(s) {
		c2 = s[i+2]
	}
	tok, op, n := rtOp, string(c), 1
	two := string([]byte{c, c1})
	switch {
	case two == "==" || two == "!=" || two == ">=" || two == "<=" || two == "&&" || two == "||":
		op, n = two, 2
	case two == "<<" || two == ">>":
		if c2 == '=' {
			tok, n = rtOpAssign, 3
			p.asg = two
		} else {
			op, n = two, 2
		}
	case two == "**":
		op, n = two, 2
	case (c == '-' || c == '+') && c1 == c:
		k := i + 2
		for k < len(s) && isBlank(s[k]) {
			k++
		}
		switch {
		case p.cur == rtStr:
			tok, n = rtPostInc, 2
			if c == '-' {
				tok = rtPostDec
			}
		case k < len(s) && isIdStart(s[k]):
			tok, n = rtPreInc, 2
			if c == '-' {
				tok = rtPreDec
			}
		}
	case c1 == '=' && strings.IndexByte("*/%+-&^|", c) >= 0:
		tok, n = rtOpAssign, 2
		p.asg = string(c)
	case strings.IndexByte("+-*/%<>&|^!~=?:,()", c) < 0:
		p.err("syntax error: invalid arithmetic operator")
	}
	p.pos = i + n
	p.op = op
	p.last, p.cur = p.cur, tok
}

func (p *arRefParser) strlong(num string) int64 {
	s := num
	base := int64(10)
	foundbase := false
	if s[0] == '0' {
		s = s[1:]
		if s == "" {
			return 0
		}
		if s[0] == 'x' || s[0] == 'X' {
			base = 16
			s = s[1:]
		} else {
			base = 8
		}
		foundbase = true
	}
	val := new(big.Int)
	for i := 0; i < len(s); i++ {
		c := s[i]
		if c == '#' {
			if foundbase {
				p.err("invalid number")
			}
			if val.Cmp(big.NewInt(2)) < 0 || val.Cmp(big.NewInt(64)) > 0 {
				p.err("invalid arithmetic base")
			}
			base = val.Int64()
			val.SetInt64(0)
			foundbase = true
			if i+1 >= len(s) || !(isIdChar(s[i+1]) || s[i+1] == '@') {
				p.err("invalid integer constant")
			}
			continue
		}
		var d int64
		switch {
		case c >= '0' && c <= '9':
			d = int64(c - '0')
		case c >= 'a' && c <= 'z':
			d = int64(c-'a') + 10
		case c >= 'A' && c <= 'Z':
			if base <= 36 {
				d = int64(c-'A') + 10
			} else {
				d = int64(c-'A') + 36
			}
		case c == '@':
			d = 62
		case c == '_':
			d = 63
		}
		if d >= base {
			p.err("value too great for base")
		}
		val.Mul(val, big.NewInt(base))
		val.Add(val, big.NewInt(d))
		if !val.IsInt64() {
			// a literal beyond int64: platform-defined wrap-around
			panic(arRefExcl{"literal overflow"})
		}
	}
	return val.Int64()
}

// streval is the value of a variable: unset or empty is 0, anything else
// is evaluated as an expression of its own.
func (p *arRefParser) streval(name string) int64 {
	if p.noeval > 0 {
		return 0
	}
	v := p.st.vars[name]
	if v == "" {
		return 0
	}
	return p.subexpr(v)
}

func (p *arRefParser) bind(name string, v int64) {
	p.st.vars[name] = strconv.FormatInt(v, 10)
}

// fit checks that the mathematical result z is representable.
func (p *arRefParser) fit(z *big.Int, what string) int64 {
	if z.IsInt64() {
		return z.Int64()
	}
	if p.noeval > 0 {
		return 0 // the value is discarded by the caller's caller
	}
	panic(arRefExcl{what + " overflow"})
}

func bi(v int64) *big.Int { return big.NewInt(v) }

func (p *arRefParser) expcomma() int64 {
	v := p.expassign()
	for p.isOp(",") {
		p.readtok()
		v = p.expassign()
	}
	return v
}

func (p *arRefParser) expassign() int64 {
	value := p.expcond()
	if p.isOp("=") || p.cur == rtOpAssign {
		special := p.cur == rtOpAssign
		op := p.asg
		if p.last != rtStr {
			p.err("attempted assignment to non-variable")
		}
		lvalue := value
		if p.tokstr == "" {
			p.err("syntax error in variable assignment")
		}
		lhs := p.tokstr
		p.readtok()
		value = p.expassign()
		if special {
			value = p.binop(op, lvalue, value)
		}
		if p.noeval == 0 {
			p.bind(lhs, value)
		}
		p.tokstr = ""
	}
	return value
}

func (p *arRefParser) expcond() int64 {
	cval := p.explevel(0)
	rval := cval
	if p.isOp("?") {
		set := false
		if cval == 0 {
			set = true
			p.noeval++
		}
		p.readtok()
		if p.cur == rtEOF || p.isOp(":") {
			p.err("expression expected")
		}
		val1 := p.expcomma()
		if set {
			p.noeval--
		}
		if !p.isOp(":") {
			p.err("`:' expected for conditional expression")
		}
		set = false
		if cval != 0 {
			set = true
			p.noeval++
		}
		p.readtok()
		if p.cur == rtEOF {
			p.err("expression expected")
		}
		val2 := p.expcond()
		if set {
			p.noeval--
		}
		if cval != 0 {
			rval = val1
		} else {
			rval = val2
		}
		p.last = rtCond
	}
	return rval
}

// binary levels from lowest (||) to highest (* / %); ** and unary follow.
var arRefLevels = [][]string{
	{"||"}, {"&&"}, {"|"}, {"^"}, {"&"}, {"==", "!="}, {"<=", ">=", "<", ">"}, {"<<", ">>"}, {"+", "-"}, {"*", "/", "%"},
}

func (p *arRefParser) explevel(l int) int64 {
	if l == len(arRefLevels) {
		return p.exppower()
	}
	val1 := p.explevel(l + 1)
	for {
		found := ""
		if p.cur == rtOp {
			for _, o := range arRefLevels[l] {
				if p.op == o {
					found = o
				}
			}
		}
		if found == "" {
			return val1
		}
		set := false
		if found == "&&" && val1 == 0 || found == "||" && val1 != 0 {
			set = true
			p.noeval++
		}
		p.readtok()
		val2 := p.explevel(l + 1)
		if set {
			p.noeval--
		}
		val1 = p.binop(found, val1, val2)
		p.last = rtNum
	}
}

func (p *arRefParser) exppower() int64 {
	val1 := p.exp1()
	for p.isOp("**") {
		p.readtok()
		val2 := p.exppower()
		p.last = rtNum
		if val2 == 0 {
			return 1
		}
		if val2 < 0 {
			p.err("exponent less than 0")
		}
		val1 = p.ipow(val1, val2)
	}
	return val1
}

func (p *arRefParser) ipow(b, e int64) int64 {
	switch {
	case b == 0 || b == 1:
		return b
	case b == -1:
		if e%2 == 0 {
			return 1
		}
		return -1
	case e > 64:
		if p.noeval > 0 {
			return 0
		}
		panic(arRefExcl{"** overflow"})
	}
	return p.fit(new(big.Int).Exp(bi(b), bi(e), nil), "**")
}

func (p *arRefParser) binop(op string, a, b int64) int64 {
	b2i := func(v bool) int64 {
		if v {
			return 1
		}
		return 0
	}
	switch op {
	case "||":
		return b2i(a != 0 || b != 0)
	case "&&":
		return b2i(a != 0 && b != 0)
	case "|":
		return a | b
	case "^":
		return a ^ b
	case "&":
		return a & b
	case "==":
		return b2i(a == b)
	case "!=":
		return b2i(a != b)
	case "<":
		return b2i(a < b)
	case ">":
		return b2i(a > b)
	case "<=":
		return b2i(a <= b)
	case ">=":
		return b2i(a >= b)
	case "<<", ">>":
		if b < 0 || b > 63 {
			if p.noeval > 0 {
				return 0
			}
			panic(arRefExcl{"shift count outside 0..63"})
		}
		if op == ">>" {
			return a >> uint(b)
		}
		return p.fit(new(big.Int).Lsh(bi(a), uint(b)), "<<")
	case "+":
		return p.fit(new(big.Int).Add(bi(a), bi(b)), "+")
	case "-":
		return p.fit(new(big.Int).Sub(bi(a), bi(b)), "-")
	case "*":
		return p.fit(new(big.Int).Mul(bi(a), bi(b)), "*")
	case "/", "%":
		if b == 0 {
			if p.noeval == 0 {
				p.err("division by 0")
			}
			b = 1
		}
		q, r := new(big.Int).QuoRem(bi(a), bi(b), new(big.Int)) // truncated, like C
		if op == "/" {
			return p.fit(q, "/")
		}
		return p.fit(r, "%")
	}
	p.err("bad operator " + op)
	return 0
}

func (p *arRefParser) exp1() int64 {
	if p.cur == rtOp {
		switch p.op {
		case "!":
			p.readtok()
			v := p.exp1()
			p.last = rtNum
			if v == 0 {
				return 1
			}
			return 0
		case "~":
			p.readtok()
			v := p.exp1()
			p.last = rtNum
			return ^v
		case "-":
			p.readtok()
			v := p.exp1()
			p.last = rtNum
			return p.fit(new(big.Int).Neg(bi(v)), "unary -")
		case "+":
			p.readtok()
			v := p.exp1()
			p.last = rtNum
			return v
		}
	}
	return p.exp0()
}

func (p *arRefParser) exp0() int64 {
	var val int64
	switch {
	case p.cur == rtPreInc || p.cur == rtPreDec:
		stok := p.cur
		p.readtok()
		if p.cur != rtStr {
			p.err("identifier expected after pre-increment or pre-decrement")
		}
		d := int64(1)
		if stok == rtPreDec {
			d = -1
		}
		v2 := p.fit(new(big.Int).Add(bi(p.tokval), bi(d)), "++")
		if p.noeval == 0 {
			p.bind(p.tokstr, v2)
		}
		val = v2
		p.cur = rtNum
		// a ++ or -- right after the incremented name is "assignment
		// requires lvalue" whatever follows (bash 5.2: `++x-- - 2`, `++x ++ 2`)
		q := p.pos
		for q < len(p.src) && isBlank(p.src[q]) {
			q++
		}
		if q+1 < len(p.src) && (p.src[q] == '+' || p.src[q] == '-') && p.src[q+1] == p.src[q] {
			p.err("assignment requires lvalue")
		}
		p.readtok()
	case p.isOp("("):
		p.readtok()
		val = p.expcomma()
		if !p.isOp(")") {
			p.err("missing `)'")
		}
		p.readtok()
	case p.cur == rtNum || p.cur == rtStr:
		val = p.tokval
		if p.cur == rtStr {
			sv := p.save()
			name := p.tokstr
			p.noeval++ // the look-ahead must not evaluate anything
			p.readtok()
			p.noeval--
			stok := p.cur
			if stok == rtPostInc || stok == rtPostDec {
				p.tokstr = name
				p.last = rtStr
				d := int64(1)
				if stok == rtPostDec {
					d = -1
				}
				v2 := p.fit(new(big.Int).Add(bi(val), bi(d)), "++")
				if p.noeval == 0 {
					p.bind(name, v2)
				}
				p.cur = rtNum // x++=7 is an error
			} else {
				p.restore(sv)
			}
		}
		p.readtok()
	default:
		p.err("syntax error: operand expected")
	}
	return val
}
