package checks

import (
	"bytes"
	"fmt"
	"io"
	"os"
	"runtime"
	"runtime/debug"
	"strconv"
	"strings"
	"sync"
	"sync/atomic"
	"time"
	"unsafe"

	"mvdan.cc/sh/v3/syntax"
	"mvdan.cc/sh/v3/syntax/typedjson"

	"verif/mc/synt"
	"verif/mc/vc"
)

// C06: parsing and printing never crash or hang.
//
// Files: c06.go (oracle: one input under every configuration), c06_gen.go
// (the enumerated input spaces), c06_cost.go (growth of the parse cost on
// pumped inputs, measured in single-goroutine child processes).

func init() { Registry["C06"] = c06 }

// c06Case is one input. Inputs are arbitrary bytes, so they are stored as
// []byte (base64 in replay files); Text is the same input as a Go quoted
// string for the reader.
type c06Case struct {
	Kind string `json:"kind"` // bytes | tokens | corpus | mutant | pump | nest | cost | reusefam | reuse
	Src  []byte `json:"src,omitempty"`
	Text string `json:"text,omitempty"`
	// Set selects the configuration set: 2 = full cross product, 1 =
	// reduced, 0 = minimal (see c06Configs).
	Set int `json:"set"`
	// cost cases: the input family U V^k X and the single configuration.
	U   []byte `json:"u,omitempty"`
	V   []byte `json:"v,omitempty"`
	X   []byte `json:"x,omitempty"`
	Cfg int    `json:"cfg,omitempty"`
	// cost cases with a second repeated part: U V^k M W^k X
	M []byte `json:"m,omitempty"`
	W []byte `json:"w,omitempty"`
	// reuse cases: Calls are made one after the other on ONE new Parser built
	// with the options of Opt; the last call is the judged one.
	Opt   *c06Cfg   `json:"opt,omitempty"`
	Calls []c06Call `json:"calls,omitempty"`
}

// c06Call is one call of an entry point.
type c06Call struct {
	Entry int    `json:"entry"`
	Early bool   `json:"early,omitempty"` // the consumer of an iterator stops after the first item
	Src   []byte `json:"src"`
	Text  string `json:"text,omitempty"`
}

func (cl c06Call) String() string {
	s := c06Entries[cl.Entry]
	if cl.Early {
		s += "(stop after first)"
	}
	return fmt.Sprintf("%s(%q)", s, cl.Src)
}

// c06Cfg is one parser configuration plus entry point.
type c06Cfg struct {
	Lang  int // index into synt.Variants
	Keep  bool
	Stop  bool // StopAt("$$")
	Rec   int  // RecoverErrors
	Entry int  // index into c06Entries
	Early bool // the consumer of an iterator entry point stops after the first item
}

var c06Entries = []string{"Parse", "StmtsSeq", "WordsSeq", "InteractiveSeq", "Document", "Arithmetic"}

func (g c06Cfg) String() string {
	var sb strings.Builder
	sb.WriteString(synt.Variants[g.Lang].Name)
	if g.Keep {
		sb.WriteString(",KeepComments")
	}
	if g.Stop {
		sb.WriteString(",StopAt($$)")
	}
	if g.Rec > 0 {
		fmt.Fprintf(&sb, ",RecoverErrors(%d)", g.Rec)
	}
	sb.WriteString(" " + c06Entries[g.Entry])
	if g.Early {
		sb.WriteString("(stop after first)")
	}
	return sb.String()
}

func (g c06Cfg) parser() *syntax.Parser {
	opts := []syntax.ParserOption{syntax.Variant(synt.Variants[g.Lang].Lang), syntax.KeepComments(g.Keep)}
	if g.Stop {
		opts = append(opts, syntax.StopAt("$$"))
	}
	if g.Rec > 0 {
		opts = append(opts, syntax.RecoverErrors(g.Rec))
	}
	return syntax.NewParser(opts...)
}

// c06Configs returns the configuration set. full: 5 variants x KeepComments
// {off,on} x StopAt {none,"$$"} x RecoverErrors {0,1,3} x 6 entry points =
// 360. reduced: 5 variants x 6 entry points x the 4 option triples
// (keep,stop,rec) in {(on,none,0), (off,$$,0), (on,none,3), (off,$$,1)} = 120:
// every value of every option with every variant and entry point, every
// pair (keep/stop value, rec value in {0,>0}). minimal: 5 variants x 6
// entry points x {(on,none,0), (off,$$,3)} = 60: every option value with
// every variant and entry point.
func c06Configs(set int) []c06Cfg {
	var out []c06Cfg
	for l := range synt.Variants {
		for e := range c06Entries {
			if set == 2 {
				for _, keep := range []bool{false, true} {
					for _, stop := range []bool{false, true} {
						for _, rec := range []int{0, 1, 3} {
							out = append(out, c06Cfg{Lang: l, Keep: keep, Stop: stop, Rec: rec, Entry: e})
						}
					}
				}
			} else if set == 1 {
				out = append(out,
					c06Cfg{Lang: l, Keep: true, Stop: false, Rec: 0, Entry: e},
					c06Cfg{Lang: l, Keep: false, Stop: true, Rec: 0, Entry: e},
					c06Cfg{Lang: l, Keep: true, Stop: false, Rec: 3, Entry: e},
					c06Cfg{Lang: l, Keep: false, Stop: true, Rec: 1, Entry: e},
				)
			} else {
				out = append(out,
					c06Cfg{Lang: l, Keep: true, Stop: false, Rec: 0, Entry: e},
					c06Cfg{Lang: l, Keep: false, Stop: true, Rec: 3, Entry: e},
				)
			}
		}
	}
	return out
}

var c06CfgSets = [3][]c06Cfg{c06Configs(0), c06Configs(1), c06Configs(2)}

// The printer configurations every returned tree is printed with.
var c06PrintCfgs = []synt.Config{
	{},
	{Indent: 2, BinNext: true, CaseInd: true, SpaceRed: true, KeepPad: true, FuncNext: true},
	{Minify: true},
	{Indent: 8, Single: true, SpaceRed: true},
}

// c06Progress is what the watchdog of a batch looks at.
type c06Progress struct {
	idx       atomic.Int64 // case index within the batch
	step      atomic.Int64 // bumped before every call into the code under test
	where     atomic.Int64 // packed (stage, configuration) of the call in progress
	abandoned atomic.Bool
}

var c06Stages = []string{"", "Print{0}", "Print{1}", "Print{2}", "Print{3}", "typedjson.Encode", "Walk", "Simplify"}

func c06StageName(i int) string {
	if i >= 1 && i <= 4 {
		return "Print{" + c06PrintCfgs[i-1].String() + "}"
	}
	return c06Stages[i]
}

func c06Pack(stage int, g c06Cfg) int64 {
	b := func(x bool) int64 {
		if x {
			return 1
		}
		return 0
	}
	return int64(stage) | int64(g.Lang)<<4 | b(g.Keep)<<8 | b(g.Stop)<<9 | int64(g.Rec)<<10 | int64(g.Entry)<<13 | b(g.Early)<<17
}

func c06Unpack(v int64) string {
	g := c06Cfg{Lang: int(v >> 4 & 15), Keep: v>>8&1 == 1, Stop: v>>9&1 == 1, Rec: int(v >> 10 & 7), Entry: int(v >> 13 & 15), Early: v>>17&1 == 1}
	st := int(v & 15)
	if st == 0 {
		return c06Entries[g.Entry] + " with " + g.String()
	}
	return c06StageName(st) + " of the tree from " + g.String()
}

// c06Worker holds per-goroutine state.
type c06Worker struct {
	c        *vc.Ctx
	pr       *c06Progress
	printers [4]*syntax.Printer
	rd       bytes.Reader
	nodes    int
	calls    int // callbacks of InteractiveSeq
	counts   map[string]int
	parsers  map[int64]*c06Cached
	failHist []c06Call // calls made before the failing one on the cached parser that just failed
	fresh    bool      // do not use cached parsers
	info     bool // also try the consumers on trees returned with an error (counted only)
	dkey     []byte
	seen     map[uint64]struct{}
	buf      bytes.Buffer
}

func (w *c06Worker) at(stage int, g c06Cfg) {
	if w.pr != nil {
		w.pr.where.Store(c06Pack(stage, g))
		w.pr.step.Add(1)
	}
}

func (w *c06Worker) count(name string) { w.counts[name]++ }

func (w *c06Worker) flush() {
	for k, v := range w.counts {
		w.c.Count(k, v)
	}
	clear(w.counts)
}

// c06Guard runs f; a panic becomes a failure whose class names the panic
// site (first frame inside mvdan.cc/sh) and kind.
func c06Guard(stage string, g c06Cfg, src []byte, f func()) (fail *vc.Fail) {
	defer func() {
		if r := recover(); r != nil {
			site := "unknown"
			pcs := make([]uintptr, 64)
			n := runtime.Callers(2, pcs)
			frames := runtime.CallersFrames(pcs[:n])
			for {
				fr, more := frames.Next()
				if strings.HasPrefix(fr.Function, "mvdan.cc/sh/v3/") {
					site = strings.TrimPrefix(fr.Function, "mvdan.cc/sh/v3/")
					break
				}
				if !more {
					break
				}
			}
			msg := fmt.Sprint(r)
			kind := "explicit"
			switch {
			case strings.Contains(msg, "nil pointer dereference"):
				kind = "nil-deref"
			case strings.Contains(msg, "index out of range"):
				kind = "index"
			case strings.Contains(msg, "slice bounds out of range"):
				kind = "slice-bounds"
			case strings.Contains(msg, "interface conversion"):
				kind = "type-assertion"
			}
			site = c06SiteRepl.Replace(site)
			fail = &vc.Fail{
				Key:    fmt.Sprintf("panic %s [%s] %q", stage, g, src),
				Msg:    fmt.Sprintf("%s of %q with %s panics in %s: %v", stage, src, g, site, r),
				Detail: string(debug.Stack()),
				Class:  c06PanicClass(stage, kind, site, msg, g, src),
			}
		}
	}()
	f()
	return nil
}

// typedNil reports whether the node interface holds nothing to work on.
func c06Nil(n syntax.Node) bool {
	switch x := n.(type) {
	case nil:
		return true
	case *syntax.Word:
		return x == nil
	case *syntax.File:
		return x == nil
	case *syntax.Stmt:
		return x == nil
	}
	return false
}

// post runs the consumers of a returned tree: Walk (with Pos/End of every
// node), Print under the four printer configurations, typedjson.Encode,
// Simplify (last: it mutates). Within one input, a tree whose preorder
// sequence of (node type, Pos, End, literal value) and whose default printed
// text both equal those of a tree already consumed is not consumed again.
func (w *c06Worker) post(g c06Cfg, src []byte, n syntax.Node) *vc.Fail {
	if c06Nil(n) {
		return nil
	}
	h := uint64(14695981039346656037)
	mix := func(x uint64) {
		for i := 0; i < 8; i++ {
			h ^= x & 255
			h *= 1099511628211
			x >>= 8
		}
	}
	w.at(6, g)
	if fl := c06Guard(c06StageName(6), g, src, func() {
		syntax.Walk(n, func(x syntax.Node) bool {
			if x != nil {
				w.nodes++
				mix(uint64((*[2]uintptr)(unsafe.Pointer(&x))[0]))
				mix(uint64(x.Pos().Offset())<<1 | c06b(x.Pos().IsRecovered()))
				mix(uint64(x.End().Offset())<<1 | c06b(x.End().IsRecovered()))
				if l, ok := x.(*syntax.Lit); ok {
					for i := 0; i < len(l.Value); i++ {
						h ^= uint64(l.Value[i])
						h *= 1099511628211
					}
				}
			} else {
				mix(0)
			}
			return true
		})
	}); fl != nil {
		return fl
	}
	for i, pc := range c06PrintCfgs {
		if w.printers[i] == nil {
			w.printers[i] = pc.Printer()
		}
		w.at(1+i, g)
		w.buf.Reset()
		if fl := c06Guard(c06StageName(1+i), g, src, func() { w.printers[i].Print(&w.buf, n) }); fl != nil {
			w.printers[i] = nil
			return fl
		}
		if i == 0 {
			for _, c := range w.buf.Bytes() {
				h ^= uint64(c)
				h *= 1099511628211
			}
			if _, dup := w.seen[h]; dup {
				w.count("trees_equal_to_one_already_consumed_for_the_input")
				return nil
			}
			w.seen[h] = struct{}{}
			w.count("trees_consumed")
		}
	}
	w.at(5, g)
	if fl := c06Guard(c06StageName(5), g, src, func() { typedjson.Encode(io.Discard, n) }); fl != nil {
		return fl
	}
	w.at(7, g)
	if fl := c06Guard(c06StageName(7), g, src, func() { syntax.Simplify(n) }); fl != nil {
		return fl
	}
	return nil
}

func c06b(x bool) uint64 {
	if x {
		return 1
	}
	return 0
}

// c06Cached is a cached parser and the calls made on it so far for the last
// few inputs.
type c06Cached struct {
	p    *syntax.Parser
	hist []c06Call
}

const c06HistInputs = 8 // the history keeps every call made for this many inputs

func c06SameSrc(a, b []byte) bool {
	if len(a) != len(b) {
		return false
	}
	return len(a) == 0 || &a[0] == &b[0] || bytes.Equal(a, b)
}

// c06HistAdd appends a call, dropping the calls of all but the last
// c06HistInputs distinct consecutive inputs.
func c06HistAdd(h []c06Call, cl c06Call) []c06Call {
	if n := len(h); n > 0 && !c06SameSrc(h[n-1].Src, cl.Src) {
		inputs := 1
		for i := n - 1; i > 0; i-- {
			if !c06SameSrc(h[i].Src, h[i-1].Src) {
				inputs++
				if inputs > c06HistInputs {
					h = append(h[:0], h[i:]...)
					break
				}
			}
		}
	}
	return append(h, cl)
}

// one runs a single configuration on src and returns the number of items
// the entry point produced, the error text, and the first failure.
func (w *c06Worker) one(g c06Cfg, src []byte, doPost bool) (items int, errText string, fail *vc.Fail) {
	// Parsers are cached per worker and option set (allocating one costs
	// more than parsing a short input), together with the calls made on them
	// for the last inputs. A failure seen with a cached parser is re-examined
	// with a new one by the caller, and if it does not repeat there, with the
	// recorded calls replayed on a new one (c06Worker.reuse).
	if w.fresh {
		return w.call(g.parser(), g, src, doPost)
	}
	pk := c06Pack(0, c06Cfg{Lang: g.Lang, Keep: g.Keep, Stop: g.Stop, Rec: g.Rec})
	cp := w.parsers[pk]
	if cp == nil {
		cp = &c06Cached{p: g.parser()}
		w.parsers[pk] = cp
	}
	items, errText, fail = w.call(cp.p, g, src, doPost)
	if fail != nil {
		w.failHist = cp.hist
		delete(w.parsers, pk)
	} else {
		cp.hist = c06HistAdd(cp.hist, c06Call{Entry: g.Entry, Early: g.Early, Src: src})
	}
	return items, errText, fail
}

// call runs one entry point of p on src.
func (w *c06Worker) call(p *syntax.Parser, g c06Cfg, src []byte, doPost bool) (items int, errText string, fail *vc.Fail) {
	w.rd.Reset(src)
	var err error
	post := func(n syntax.Node, withErr bool) bool {
		if withErr {
			// The statement promises "a tree or an error": what comes back
			// next to a non-nil error is not a returned tree and is not
			// judged. For the record the full-set cases count how many of
			// them a consumer cannot handle.
			if doPost && w.info && !c06Nil(n) {
				w.count("info_trees_returned_with_error")
				if w.post(g, src, n) != nil {
					w.count("info_trees_returned_with_error_that_panic_a_consumer")
				}
				w.at(0, g)
			}
			return true
		}
		if fail == nil && doPost {
			fail = w.post(g, src, n)
			w.at(0, g)
		}
		return fail == nil
	}
	w.at(0, g)
	pf := c06Guard(c06Entries[g.Entry], g, src, func() {
		switch g.Entry {
		case 0:
			var f *syntax.File
			f, err = p.Parse(&w.rd, "")
			if f != nil {
				items = 1
				post(f, err != nil)
			}
		case 1:
			for st, e := range p.StmtsSeq(&w.rd) {
				if e != nil {
					err = e
				}
				if st != nil {
					items++
					if !post(st, e != nil) || g.Early {
						break
					}
				}
			}
		case 2:
			for wd, e := range p.WordsSeq(&w.rd) {
				if e != nil {
					err = e
				}
				if wd != nil {
					items++
					if !post(wd, e != nil) || g.Early {
						break
					}
				}
			}
		case 3:
			for sts, e := range p.InteractiveSeq(&w.rd) {
				if e != nil {
					err = e
				}
				_ = p.Incomplete()
				stop := false
				for _, st := range sts {
					if st != nil {
						items++
						if !post(st, e != nil) {
							stop = true
						}
					}
				}
				w.calls++
				if stop || g.Early {
					break
				}
			}
		case 4:
			var wd *syntax.Word
			wd, err = p.Document(&w.rd)
			if wd != nil {
				items = 1
				post(wd, err != nil)
			}
		case 5:
			var x syntax.ArithmExpr
			x, err = p.Arithmetic(&w.rd)
			if x != nil {
				items = 1
				post(x, err != nil)
			}
		}
	})
	if fail == nil {
		fail = pf
	}
	if err != nil {
		errText = err.Error()
	}
	return items, errText, fail
}

// runCase judges one input under its configuration set. An unclassified
// failure wins over a classified one so that a recorded family cannot hide a
// new defect on the same input.
func (w *c06Worker) runCase(t c06Case) *vc.Fail {
	switch t.Kind {
	case "cost":
		return c06CostCase(t)
	case "reusefam":
		return w.runReuseFam(t)
	case "reuse":
		if t.Opt == nil || len(t.Calls) == 0 {
			return nil
		}
		defer w.flush()
		w.info = false
		w.c.Eval(len(t.Calls) - 1)
		fl, _, _ := w.runCalls(*t.Opt, t.Calls)
		return fl
	}
	cfgs := c06CfgSets[t.Set]
	w.info = t.Kind == "bytes" && len(t.Src) <= 2
	clear(w.seen)
	defer w.flush()
	evals := 0
	defer func() { w.c.Eval(evals - 1) }() // RunBatch counts one per case
	var classified *vc.Fail
	nclass := 0
	keep := func(fl *vc.Fail) bool { // reports whether to stop
		if fl == nil {
			return false
		}
		if fl.Class == "" {
			classified = fl
			return true
		}
		nclass++
		if classified == nil {
			classified = fl
		}
		return false
	}
	one := func(g c06Cfg, doPost bool) (int, string, *vc.Fail) {
		items, errText, fl := w.one(g, t.Src, doPost)
		if fl != nil {
			// same configuration with a parser nobody used before
			hist := w.failHist
			w.failHist = nil
			w.fresh = true
			clear(w.seen)
			_, _, fl2 := w.one(g, t.Src, doPost)
			w.fresh = false
			if fl2 == nil || fl2.Key != fl.Key {
				// The failure depends on what the cached parser was used for
				// before: replay the recorded calls on a new parser and report
				// that sequence as the case (c06_reuse.go).
				if w.reuse(g, hist, c06Call{Entry: g.Entry, Early: g.Early, Src: t.Src}, fl.Key) {
					fl = fl2 // the input's own failure on a new parser, if any
				} else {
					fl.Key = "only with a reused parser: " + fl.Key
					fl.Msg = fmt.Sprintf("only with a reused Parser, and not reproduced by replaying the %d calls made on it for the last %d inputs: %s", len(hist), c06HistInputs, fl.Msg)
					fl.Class = ""
				}
			}
		}
		return items, errText, fl
	}
	for _, g := range cfgs {
		w.nodes, w.calls = 0, 0
		items, errText, fl := one(g, true)
		evals++
		if keep(fl) {
			return classified
		}
		if w.pr != nil && w.pr.abandoned.Load() {
			return nil
		}
		w.dkey = append(w.dkey[:0], byte(g.Entry))
		w.dkey = strconv.AppendInt(w.dkey, int64(items), 10)
		w.dkey = append(w.dkey, '/')
		w.dkey = strconv.AppendInt(w.dkey, int64(w.nodes), 10)
		w.dkey = append(w.dkey, c06StripPos(errText)...)
		w.c.Distinct(string(w.dkey))
		if (items > 0 && g.Entry >= 1 && g.Entry <= 3) || w.calls > 0 {
			g.Early = true
			_, _, fl := one(g, false)
			evals++
			if keep(fl) {
				return classified
			}
		}
	}
	if nclass > 1 {
		w.counts["classified_failures_beyond_first_per_input"] += nclass - 1
	}
	return classified
}

// c06StripPos removes the leading line:col: of a parse error.
func c06StripPos(s string) string {
	for i := 0; i < len(s); i++ {
		c := s[i]
		if (c >= '0' && c <= '9') || c == ':' {
			continue
		}
		if c == ' ' {
			return s[i+1:]
		}
		break
	}
	return s
}

// hung cases found in this process: re-executions of the same case must not
// wait (and leak a spinning goroutine) again.
var c06Hung sync.Map // key(string) -> *vc.Fail

var c06NHung atomic.Int64
var c06TooManyHangs sync.Once

var c06Ballast []byte

var c06SiteRepl = strings.NewReplacer("(", "", ")", "", "*", "")

var c06HangLimit = 20 * time.Second

func c06CaseID(t c06Case) string {
	return fmt.Sprintf("%s|%v|%q|%q|%q|%q|%d|%q|%q|%v|%v", t.Kind, t.Set, t.Src, t.U, t.V, t.X, t.Cfg, t.M, t.W, t.Opt, t.Calls)
}

// c06RunBatch runs the cases in a disposable goroutine watched by the
// caller: a call into the code under test that does not return within
// c06HangLimit is reported as a hang of that case, the goroutine is
// abandoned (it cannot be killed) and the rest of the batch continues in a
// new one.
func c06RunBatch(c *vc.Ctx, cases []c06Case) []*vc.Fail {
	out := make([]*vc.Fail, len(cases))
	from := 0
	for from < len(cases) {
		pr := &c06Progress{}
		res := make([]*vc.Fail, len(cases))
		done := make(chan struct{})
		go func(from int) {
			defer close(done)
			w := &c06Worker{c: c, pr: pr, counts: map[string]int{}, parsers: map[int64]*c06Cached{}, seen: map[uint64]struct{}{}}
			for i := from; i < len(cases); i++ {
				if pr.abandoned.Load() {
					return
				}
				if h, ok := c06Hung.Load(c06CaseID(cases[i])); ok {
					res[i] = h.(*vc.Fail)
					pr.idx.Store(int64(i + 1))
					continue
				}
				if c06NHung.Load() >= 16 && c.Replay == "" {
					// every hang leaves a goroutine spinning for good; past
					// this point the machine is too busy to judge anything
					w.c.Count("skipped_after_16_hangs", 1)
					c06TooManyHangs.Do(func() { c.CapNote("16 calls hung; the remaining inputs were not examined") })
					pr.idx.Store(int64(i + 1))
					continue
				}
				r := w.runCase(cases[i])
				if pr.abandoned.Load() {
					return
				}
				res[i] = r
				pr.idx.Store(int64(i + 1))
			}
		}(from)
		pr.idx.Store(int64(from))
		lastStep, lastChange := int64(-1), time.Now()
		tick := time.NewTicker(500 * time.Millisecond)
		finished := false
		for !finished {
			select {
			case <-done:
				finished = true
			case <-tick.C:
				s := pr.step.Load()
				if s != lastStep {
					lastStep, lastChange = s, time.Now()
					continue
				}
				if time.Since(lastChange) < c06HangLimit {
					continue
				}
				// hung inside one call
				pr.abandoned.Store(true)
				i := int(pr.idx.Load())
				where := c06Unpack(pr.where.Load())
				copy(out[from:i], res[from:i])
				t := cases[i]
				what := fmt.Sprintf("%q", t.Src)
				if t.Kind == "reuse" || t.Kind == "reusefam" {
					what = t.Kind + " case " + t.Text + " (some call of the sequence)"
				}
				fl := &vc.Fail{
					Key:   fmt.Sprintf("hang %s %s", where, what),
					Msg:   fmt.Sprintf("%s of %s does not return within %s (inputs of this size normally take microseconds)", where, what, c06HangLimit),
					Class: c06HangClass(where, t.Src),
				}
				if _, dup := c06Hung.LoadOrStore(c06CaseID(t), fl); !dup {
					c06NHung.Add(1)
				}
				c.Count("hung_goroutines_abandoned", 1)
				out[i] = fl
				from = i + 1
				finished = true
				tick.Stop()
				goto next
			}
		}
		tick.Stop()
		copy(out[from:], res[from:])
		from = len(cases)
	next:
	}
	return out
}

func c06(c *vc.Ctx) {
	if c06CostChild(c) {
		return
	}
	debug.SetMaxStack(512 << 20)
	// The live heap is tiny and every parse allocates a few KiB: with the
	// default pacing the collector would run thousands of times a second.
	// An untouched ballast makes the collector run once per ~24 MiB of allocation.
	c06Ballast = make([]byte, 24<<20)
	c.Reruns = 1
	sp := c06Space(c)
	c.Rule = sp.describe()
	c.Assumptions = []string{
		"parsers are cached per worker and option set; a failure is re-examined on a new parser and, if it does not repeat there, with the recorded calls of the last inputs replayed on a new parser (longer histories: C08); input arrives in one Read (read schedules are C07)",
		"hang = one call into the code under test not returning within 20 s on an input of at most a few KiB (normal: microseconds); the spinning goroutine is abandoned",
		"an unrecoverable runtime fatal error (stack exhaustion, out of memory) of the code under test kills the checker (exit 2) instead of being attributed to a case",
		"cost growth is judged on heap allocation counts/bytes measured in single-goroutine child processes (deterministic) and, with a 2x margin on both sides and best-of-3, on thread CPU time (CLOCK_THREAD_CPUTIME_ID); no wall-clock bound other than the hang limit",
	}
	if os.Getenv("VERIF_C06_COUNT") != "" {
		sp.gen(func(c06Case) {})
		nf := 0
		c06CostFamilies(sp.CostLen, sp.Closers, func(int, c06Fam) { nf++ })
		fmt.Println(sp.counts, "cost families:", nf)
		os.Exit(0)
	}
	// The cost phase goes first: it is the smaller one and must not be
	// starved by the time budget.
	complete := true
	only := os.Getenv("VERIF_C06_ONLY") // development aid: "cost" or "main"
	if c.Replay == "" && only != "main" {
		complete = c06CostPhase(c, sp)
	}
	if only != "cost" {
		if !vc.RunBatch(c, 32, sp.gen, func(ts []c06Case) []*vc.Fail { return c06RunBatch(c, ts) }) {
			complete = false
		}
	}
	c.Extra["inputs_by_kind"] = sp.counts
	c.Finish(complete)
}
