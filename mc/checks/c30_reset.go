package checks

import (
	"context"
	"fmt"
	"strings"
	"sync"
	"time"

	"mvdan.cc/sh/v3/syntax"

	"verif/mc/vc"
)

// c30Op is one history operation.
type c30Op struct {
	Name string
	Src  string
	// Mode: "" = Run of the whole *syntax.File; "stmts" = one Run call per
	// top-level statement, going on even after Exited() (a careless embedder);
	// "cancel" = whole-file Run under an already cancelled context; "reset" =
	// an extra Runner.Reset call.
	Mode string
}

// c30Polluters is the history alphabet: each program leaves some residue in
// the Runner that Reset has to remove.
var c30Polluters = []c30Op{
	{Name: "exit3", Src: "exit 3"},
	{Name: "false", Src: "false"},
	{Name: "set-eu", Src: "set -eu"},
	{Name: "set+e-f", Src: "set +e +u -f"},
	{Name: "pipefail", Src: "set -o pipefail"},
	{Name: "noexec", Src: "set -n"},
	{Name: "shopt", Src: "shopt -s nullglob globstar dotglob; shopt -u expand_aliases"},
	{Name: "trap-exit", Src: "trap 'echo T' EXIT"},
	{Name: "trap-err", Src: "trap 'echo E' ERR; false"},
	{Name: "trap-bad", Src: "trap 'echo (' EXIT"},
	{Name: "trap-fatal", Src: "trap 'failfatal' EXIT ERR"},
	{Name: "funcs", Src: "f() { echo in-f; }; g() { local lv=1; gv=2; return 4; }; g"},
	{Name: "alias", Src: "shopt -s expand_aliases; alias ll='echo aliased' f='echo alias-f'"},
	{Name: "cd-root", Src: "cd /"},
	{Name: "cd-sub", Src: "cd sub 2>/dev/null || cd deep"},
	{Name: "pushd", Src: "pushd / >/dev/null; pushd /dev >/dev/null"},
	{Name: "assign", Src: "x=1 y='two words'; IFS=:; GLOBAL=changed; HOME=/changed"},
	{Name: "export", Src: "export ex=1; export -n GLOBAL 2>/dev/null; declare -i n=5; declare -n ref=x"},
	{Name: "readonly", Src: "readonly ro=1 x"},
	{Name: "arrays", Src: "arr=(a b c); arr[5]=z; declare -A asc=([k]=v [k2]=v2)"},
	{Name: "unset-defaults", Src: "unset IFS PWD OPTIND HOME GLOBAL; OPTIND=3"},
	{Name: "bg-wait", Src: "{ echo bg; exit 5; } & wait $!"},
	{Name: "bg-nowait", Src: ": & : &"},
	{Name: "getopts", Src: "getopts ab: opt -ab arg -a"},
	{Name: "exec-redir", Src: "exec >out.txt 2>err.txt <in.txt"},
	{Name: "set-params", Src: "set -- a b"},
	{Name: "shift", Src: "shift"},
	{Name: "read", Src: "read rv; read -a rarr <<< 'r1 r2'"},
	{Name: "source", Src: ". ./lib.sh 2>/dev/null || . ../lib.sh"},
	{Name: "break-residue", Src: "while :; do break 5; done; for i in 1 2; do continue 3; done"},
	{Name: "fatal", Src: "failfatal; echo not-reached"},
	{Name: "unset-var-fatal", Src: "echo ${nope:?gone}"},
	{Name: "stmts-exit", Src: "lastv=1; (exit 9); exit; echo after-exit", Mode: "stmts"},
	{Name: "stmts-errexit", Src: "set -e; false; trap 'echo T2' EXIT", Mode: "stmts"},
	{Name: "cancelled", Src: "cv=1; echo cancelled-run", Mode: "cancel"},
	{Name: "RESET", Mode: "reset"},
}

func c30NonFileOps() int {
	n := 0
	for _, p := range c30Polluters {
		if p.Mode != "" {
			n++
		}
	}
	return n
}

// c30Observers are the programs P run after Reset. Together they read every
// piece of shell state a program can observe.
var c30Observers = []c30Op{
	{Name: "set-o", Src: "set -o; echo \"$-\""},
	{Name: "shopt", Src: "shopt; shopt -o"},
	{Name: "params", Src: "echo \"$#|$?|$*|$0|$!|$_\"; shift; echo \"$1\"; set --; echo $#"},
	{Name: "dirs", Src: "pwd; dirs; echo \"$PWD|$OLDPWD\"; popd; cd; pwd"},
	{Name: "alias", Src: "alias; ll; type ll f g echo"},
	{Name: "declare-f", Src: "declare -f; f; g; echo \"rc=$?\""},
	{Name: "declare-p", Src: "declare -p x y ex ro arr asc rv rarr ref n gv lv libv lastv cv opt GLOBAL HOME IFS OPTIND OPTARG PWD UID i; declare -p"},
	{Name: "trap", Src: "trap; false; echo after-false"},
	{Name: "hello", Src: "echo hi; echo err >&2"},
	{Name: "ifs", Src: "echo ${IFS@Q} $OPTIND; a='x:y z'; printf '<%s>' $a; echo"},
	{Name: "wait", Src: "wait; echo \"w=$?\"; wait g1; echo \"w1=$?\"; echo \"bang=$!\""},
	{Name: "getopts", Src: "while getopts ab: o -a -b v -ab w; do echo \"$o:$OPTARG:$OPTIND\"; done; echo \"end:$o:$OPTIND\""},
	{Name: "getopts1", Src: "getopts ab: o -ab arg -a; echo \"$?:$o:$OPTARG:$OPTIND\""},
	{Name: "glob", Src: "echo *; echo .*; echo **; echo nomatch*; echo */"},
	{Name: "read", Src: "read v; echo \"r=$?:$v\""},
	{Name: "nounset", Src: "echo \"u=$undefined_var\"; echo after-unset"},
	{Name: "pipefail", Src: "false | true; echo \"pf=$?\""},
	{Name: "loops", Src: "for i in 1 2; do echo $i; done; while :; do echo once; break; done; break; continue; return; local q=1; echo \"rc=$?\""},
	{Name: "vars", Src: "x+=1; arr+=(q); echo \"$x ${arr[@]} ${!asc[@]}\"; ro=5; echo \"ro=$ro\"; n=2+2; echo $n; echo \"$ref|$GLOBAL|$HOME|$ex\""},
	{Name: "exit", Src: "exit"},
	{Name: "exit-trap", Src: "trap 'echo bye:$?' EXIT; (exit 6)"},
	{Name: "status", Src: "(exit 6)"},
	{Name: "redir-residue", Src: "echo x >/dev/null; echo visible; echo e2 >&2; { echo blk; } 2>&1"},
	{Name: "assign-status", Src: "v=1; echo \"as=$?\"; w=$(exit 4); echo \"cs=$?\"; w=$nothing; echo \"as2=$?\""},
	{Name: "source-params", Src: ". ./lib.sh x y 2>/dev/null || . ../lib.sh x y; echo \"$*|$libv\"; . ./lib.sh 2>/dev/null || . ../lib.sh; echo \"$*\""},
	{Name: "subst", Src: "echo $(echo cs; exit 3) $?; cat <<< hs | cat; echo \"${PIPESTATUS[@]}\""},
}

type c30Parsed struct {
	op   c30Op
	file *syntax.File
}

func c30ParseOps(ops []c30Op) []c30Parsed {
	out := make([]c30Parsed, len(ops))
	for i, op := range ops {
		out[i].op = op
		if op.Mode == "reset" {
			continue
		}
		f, err := c30Parse(op.Src)
		if err != nil {
			panic(fmt.Sprintf("c30: program %q does not parse: %v", op.Name, err))
		}
		out[i].file = f
	}
	return out
}

var c30CancelledCtx = func() context.Context {
	ctx, cancel := context.WithCancel(context.Background())
	cancel()
	return ctx
}()

// apply runs one history operation on x. It returns a non-empty text if the
// real code panicked.
func (x *c30Run) apply(ctx context.Context, p c30Parsed, steps *int64) string {
	switch p.op.Mode {
	case "reset":
		*steps++
		x.r.Reset()
		return ""
	case "stmts":
		for _, s := range p.file.Stmts {
			*steps++
			if _, pn := x.runNode(ctx, s); pn != "" {
				return pn
			}
		}
		return ""
	case "cancel":
		*steps++
		_, pn := x.runNode(c30CancelledCtx, p.file)
		return pn
	}
	*steps++
	_, pn := x.runNode(ctx, p.file)
	return pn
}

// c30Reset executes one (configuration, history) case.
func c30Reset(c *vc.Ctx, st *c30Stats, t c30Case) *vc.Fail {
	if t.Cfg < 0 || t.Cfg >= len(c30Cfgs) {
		return vc.Failf("bad case", "bad configuration %d", t.Cfg)
	}
	cfg := c30Cfgs[t.Cfg]
	// Trees are never shared between concurrently running cases.
	trees, _ := c30TreePool.Get().(*c30Trees)
	if trees == nil {
		trees = &c30Trees{pol: c30ParseOps(c30Polluters), obs: c30ParseOps(c30Observers)}
	}
	defer c30TreePool.Put(trees)
	pol, obs := trees.pol, trees.obs
	names := make([]string, len(t.Hist))
	for i, p := range t.Hist {
		if p < 0 || p >= len(pol) {
			return vc.Failf("bad case", "bad history %v", t.Hist)
		}
		names[i] = pol[p].op.Name
	}
	hname := "[" + strings.Join(names, " ") + "]"
	s := c30GetScratch()
	defer c30PutScratch(s)
	ctx, cancel := context.WithTimeout(context.Background(), 60*time.Second)
	defer cancel()

	var steps, traces int64
	var fail *vc.Fail
	stateKey := ""
	var transitions []string

	// history runs the history on a new Runner and returns it with its
	// canonical state.
	history := func() (*c30Run, func() string, *vc.Fail) {
		x := s.newRunner(cfg, "")
		for i, p := range t.Hist {
			if pn := x.apply(ctx, pol[p], &steps); pn != "" {
				x.close()
				return nil, nil, &vc.Fail{
					Key:   fmt.Sprintf("reset cfg=%s hist=%s panic at op %d: %s", cfg.Name, hname, i, pn),
					Msg:   fmt.Sprintf("cfg %s: history %s panics at operation %d (%s): %s", cfg.Name, hname, i, pol[p].op.Name, pn),
					Class: "panic",
				}
			}
		}
		x.out.take()
		x.err.take()
		dump := func() string { return fmt.Sprintf("cfg=%s\n", cfg.Name) + s.norm(c30DumpRunner(x.r)) }
		return x, dump, nil
	}
	// compare P after Reset on x with P on a brand-new Runner.
	observe := func(x *c30Run, oi int) *vc.Fail {
		o := obs[oi]
		steps += 2
		x.r.Reset()
		got := x.result(x.runNode(ctx, o.file))
		var want c30Res
		cached, haveCached := c30FreshCached(t.Cfg, oi)
		if t.Chain && haveCached {
			// pruned levels: the new Runner's result for (configuration, P)
			// was computed (and re-validated by every full-replay case)
			want = cached
		} else {
			fresh := s.newRunner(cfg, "")
			want = fresh.result(fresh.runNode(ctx, o.file))
			fresh.close()
			if !haveCached {
				c30FreshStore(t.Cfg, oi, want)
			} else if len(c30DiffFields(want, cached)) > 0 {
				return &vc.Fail{Key: fmt.Sprintf("fresh runner nondeterministic cfg=%s obs=%s", cfg.Name, o.op.Name),
					Msg:    fmt.Sprintf("cfg %s: observer %q gives different results on two brand-new Runners", cfg.Name, o.op.Name),
					Detail: map[string]any{"first": cached, "now": want}}
			}
		}
		steps++
		traces++
		transitions = append(transitions, stateKey+"\x00"+o.op.Name)
		if got.Exited != want.Exited {
			c.Count("exited_flag_differs", 1)
		}
		d := c30DiffFields(got, want)
		if len(d) == 0 {
			return nil
		}
		f := &vc.Fail{
			Key: fmt.Sprintf("reset cfg=%s hist=%s obs=%s diff=%s %s", cfg.Name, hname, o.op.Name, strings.Join(d, ","), c30Hash(fmt.Sprint(got, want))),
			Msg: fmt.Sprintf("cfg %s: after history %s and Reset, observer %q (%s) differs from a new Runner in %s", cfg.Name, hname, o.op.Name, o.op.Src, strings.Join(d, ",")),
			Detail: map[string]any{
				"reused": got, "fresh": want, "vars_diff": c30VarsDiff(want.Vars, got.Vars),
			},
		}
		f.Class = c30ResetClass(t, o.op.Name, d, got, want)
		return f
	}

	if t.KeyOnly {
		x, dump, f := history()
		if f != nil {
			fail = f
		} else {
			stateKey = c30Hash(dump())
			x.close()
		}
	} else if !t.Chain {
		for oi := range obs {
			x, dump, f := history()
			if f != nil {
				fail = f
				break
			}
			key := stateKey
			if oi < 2 {
				key = c30Hash(dump())
			}
			if stateKey == "" {
				stateKey = key
				c.Distinct("state " + key)
			} else if key != stateKey {
				x.close()
				fail = &vc.Fail{Key: fmt.Sprintf("reset cfg=%s hist=%s nondeterministic state", cfg.Name, hname),
					Msg: fmt.Sprintf("cfg %s: history %s reaches different canonical states when replayed", cfg.Name, hname), Detail: dump()}
				break
			}
			f = observe(x, oi)
			x.close()
			if f != nil && fail == nil {
				fail = f
			}
		}
	} else {
		x, dump, f := history()
		if f != nil {
			fail = f
		} else {
			stateKey = c30Hash(dump())
			c.Distinct("state " + stateKey)
			start := 0
			for _, p := range t.Hist {
				start += p
			}
			for k := range obs {
				oi := (start + k) % len(obs)
				if f := observe(x, oi); f != nil && fail == nil {
					fail = f
				}
			}
			x.close()
		}
	}
	c.Eval(int(traces))

	st.mu.Lock()
	if stateKey != "" {
		st.level[c30HistID(t.Cfg, t.Hist)] = stateKey
	}
	for _, tr := range transitions {
		st.trans[tr] = true
	}
	st.traces += traces
	st.steps += steps
	st.histRun++
	st.mu.Unlock()
	if len(t.Hist) <= 1 {
		c.Sample(map[string]any{"cfg": cfg.Name, "history": names, "observers": len(obs)})
	}
	return fail
}

// c30ResetClass assigns a narrow family to a clause-1 divergence; "" leaves
// it an unclassified violation.
func c30ResetClass(t c30Case, obs string, diff []string, got, want c30Res) string {
	return ""
}

// c30Fresh caches, per (configuration, observer), the result of the
// observer on a brand-new Runner. It is deterministic: the directory trees
// of all scratch directories are identical and no history operation changes
// anything an observer reads from the file system.
var c30Fresh sync.Map

func c30FreshCached(cfg, obs int) (c30Res, bool) {
	v, ok := c30Fresh.Load([2]int{cfg, obs})
	if !ok {
		return c30Res{}, false
	}
	return v.(c30Res), true
}

func c30FreshStore(cfg, obs int, r c30Res) { c30Fresh.LoadOrStore([2]int{cfg, obs}, r) }

type c30Trees struct{ pol, obs []c30Parsed }

var c30TreePool sync.Pool
