package checks

import (
	"bytes"
	"context"
	"fmt"
	"io"
	"maps"
	"os"
	"path/filepath"
	"slices"
	"sort"
	"strings"
	"sync"
	"syscall"

	"mvdan.cc/sh/v3/expand"
	"mvdan.cc/sh/v3/interp"
)

// c29Buf is a goroutine-safe output buffer (background jobs may still write
// while the harness reads).
type c29Buf struct {
	mu sync.Mutex
	b  bytes.Buffer
}

func (b *c29Buf) Write(p []byte) (int, error) {
	b.mu.Lock()
	defer b.mu.Unlock()
	if b.b.Len() > 1<<20 {
		return len(p), nil // bounded
	}
	return b.b.Write(p)
}

func (b *c29Buf) String() string {
	b.mu.Lock()
	defer b.mu.Unlock()
	return b.b.String()
}

func (b *c29Buf) Reset() {
	b.mu.Lock()
	defer b.mu.Unlock()
	b.b.Reset()
}

// c29Recorder is the Env handed to the Runner: a WriteEnviron whose Get/Each
// serve a fixed set of variables and whose Set only records that it was
// called. Besides the exported strings of c29Pairs it holds array, map,
// read-only and nameref variables; the slices it hands out have spare
// capacity filled with sentinels, so that an append or insert performed in
// place by the Runner is visible too.
type c29Recorder struct {
	mu    sync.Mutex
	names []string
	vars  map[string]expand.Variable
	// pristine copies
	orig     map[string]expand.Variable
	origFull map[string][]string // List over its full capacity
	origIdx  map[string][]int    // Indexes over its full capacity
	sets     []string
}

var _ expand.WriteEnviron = (*c29Recorder)(nil)

func c29SpareList(vals ...string) []string {
	l := make([]string, len(vals), len(vals)+4)
	copy(l, vals)
	full := l[:cap(l)]
	for i := len(vals); i < len(full); i++ {
		full[i] = fmt.Sprintf("<spare%d>", i)
	}
	return l
}

func c29SpareInts(vals ...int) []int {
	l := make([]int, len(vals), len(vals)+4)
	copy(l, vals)
	full := l[:cap(l)]
	for i := len(vals); i < len(full); i++ {
		full[i] = -1000 - i
	}
	return l
}

func c29NewRecorder(dir string) *c29Recorder {
	rec := &c29Recorder{vars: map[string]expand.Variable{}, orig: map[string]expand.Variable{}, origFull: map[string][]string{}, origIdx: map[string][]int{}}
	for _, p := range c29Pairs(dir) {
		n, v, _ := strings.Cut(p, "=")
		rec.vars[n] = expand.Variable{Set: true, Exported: true, Kind: expand.String, Str: v}
	}
	rec.vars["envarr"] = expand.Variable{Set: true, Kind: expand.Indexed, List: c29SpareList("10", "11", "12")}
	rec.vars["envsparse"] = expand.Variable{Set: true, Kind: expand.Indexed, List: c29SpareList("s2", "s5"), Indexes: c29SpareInts(2, 5)}
	rec.vars["envempty"] = expand.Variable{Set: true, Kind: expand.Indexed, List: c29SpareList()}
	rec.vars["envmap"] = expand.Variable{Set: true, Kind: expand.Associative, Map: map[string]string{"k": "v", "j": "w"}}
	rec.vars["envro"] = expand.Variable{Set: true, ReadOnly: true, Kind: expand.String, Str: "ro"}
	rec.vars["envref"] = expand.Variable{Set: true, Kind: expand.NameRef, Str: "one"}
	rec.vars["envplain"] = expand.Variable{Set: true, Kind: expand.String, Str: "plain"}
	for n, vr := range rec.vars {
		rec.names = append(rec.names, n)
		o := vr
		o.List = slices.Clone(vr.List)
		o.Indexes = slices.Clone(vr.Indexes)
		o.Map = maps.Clone(vr.Map)
		rec.orig[n] = o
		if vr.List != nil {
			rec.origFull[n] = slices.Clone(vr.List[:cap(vr.List)])
		}
		if vr.Indexes != nil {
			rec.origIdx[n] = slices.Clone(vr.Indexes[:cap(vr.Indexes)])
		}
	}
	sort.Strings(rec.names)
	return rec
}

func (r *c29Recorder) Get(name string) expand.Variable {
	return r.vars[name] // the map itself is never written after construction
}

func (r *c29Recorder) Each(fn func(string, expand.Variable) bool) {
	for _, n := range r.names {
		if !fn(n, r.vars[n]) {
			return
		}
	}
}

func (r *c29Recorder) Set(name string, vr expand.Variable) error {
	r.mu.Lock()
	r.sets = append(r.sets, fmt.Sprintf("Set(%s, %s)", name, c29VarString(vr, true)))
	r.mu.Unlock()
	return nil
}

func c29VarString(vr expand.Variable, attrs bool) string {
	var sb strings.Builder
	if attrs || !vr.Exported || vr.ReadOnly || vr.Local || !vr.Set {
		fmt.Fprintf(&sb, "{set:%v local:%v exported:%v readonly:%v}", vr.Set, vr.Local, vr.Exported, vr.ReadOnly)
	}
	fmt.Fprintf(&sb, "%v:", vr.Kind)
	switch vr.Kind {
	case expand.Indexed:
		fmt.Fprintf(&sb, "%q%v", vr.List, vr.Indexes)
	case expand.Associative:
		keys := slices.Sorted(maps.Keys(vr.Map))
		for _, k := range keys {
			fmt.Fprintf(&sb, "[%q]=%q", k, vr.Map[k])
		}
	default:
		fmt.Fprintf(&sb, "%q", vr.Str)
	}
	return sb.String()
}

// verify returns "" when nothing was written, or a deterministic description
// of the first write found.
func (r *c29Recorder) verify() string {
	r.mu.Lock()
	defer r.mu.Unlock()
	if len(r.sets) > 0 {
		return fmt.Sprintf("%d Set calls, first %s", len(r.sets), r.sets[0])
	}
	for _, n := range r.names {
		vr, o := r.vars[n], r.orig[n]
		if got, want := c29VarString(vr, true), c29VarString(o, true); got != want {
			return fmt.Sprintf("variable %s changed from %s to %s", n, want, got)
		}
		if vr.List != nil {
			if full := vr.List[:cap(vr.List)]; !slices.Equal(full, r.origFull[n]) {
				return fmt.Sprintf("backing array of %s (beyond its length) changed from %q to %q", n, r.origFull[n], full)
			}
		}
		if vr.Indexes != nil {
			if full := vr.Indexes[:cap(vr.Indexes)]; !slices.Equal(full, r.origIdx[n]) {
				return fmt.Sprintf("backing array of the indexes of %s (beyond its length) changed from %v to %v", n, r.origIdx[n], full)
			}
		}
	}
	return ""
}

// c29Exec replaces every external command by an in-process stub.
func c29Exec(dir string) func(next interp.ExecHandlerFunc) interp.ExecHandlerFunc {
	return func(next interp.ExecHandlerFunc) interp.ExecHandlerFunc {
		return func(ctx context.Context, args []string) error {
			return c29Stub(ctx, dir, args)
		}
	}
}

func c29Stub(ctx context.Context, dir string, args []string) error {
	{
		hc := interp.HandlerCtx(ctx)
		switch args[0] {
		case "cat":
			if len(args) == 1 {
				if hc.Stdin == nil {
					return nil
				}
				_, err := io.Copy(hc.Stdout, io.LimitReader(hc.Stdin, 1<<20))
				_ = err
				return nil
			}
			for _, arg := range args[1:] {
				p := arg
				if !filepath.IsAbs(p) {
					p = filepath.Join(hc.Dir, p)
				}
				if c29Device(filepath.Clean(p), dir) {
					fmt.Fprintf(hc.Stderr, "cat: %s: refused\n", arg)
					return interp.ExitStatus(1)
				}
				f, err := os.Open(p)
				if err != nil {
					fmt.Fprintf(hc.Stderr, "cat: %s: cannot open\n", arg)
					return interp.ExitStatus(1)
				}
				io.Copy(hc.Stdout, io.LimitReader(f, 1<<20))
				f.Close()
			}
			return nil
		case "env", "printenv":
			vals := map[string]string{}
			hc.Env.Each(func(name string, vr expand.Variable) bool {
				if vr.Exported && vr.Kind == expand.String && vr.IsSet() {
					vals[name] = vr.String()
				} else {
					delete(vals, name)
				}
				return true
			})
			for _, k := range slices.Sorted(maps.Keys(vals)) {
				fmt.Fprintf(hc.Stdout, "%s=%s\n", k, vals[k])
			}
			return nil
		case "sleep":
			return nil
		}
		fmt.Fprintf(hc.Stderr, "%s: stub: not found\n", args[0])
		return interp.ExitStatus(127)
	}
}

// c29Open lets programs write only below dir (and to /dev/null) and read no
// device other than /dev/null.
func c29Open(dir string) interp.OpenHandlerFunc {
	def := interp.DefaultOpenHandler()
	return func(ctx context.Context, path string, flag int, perm os.FileMode) (io.ReadWriteCloser, error) {
		hc := interp.HandlerCtx(ctx)
		abs := path
		if !filepath.IsAbs(abs) {
			abs = filepath.Join(hc.Dir, abs)
		}
		abs = filepath.Clean(abs)
		if abs != "/dev/null" {
			if c29Device(abs, dir) {
				return nil, &os.PathError{Op: "open", Path: path, Err: syscall.EACCES}
			}
			if flag&(os.O_WRONLY|os.O_RDWR|os.O_CREATE|os.O_TRUNC|os.O_APPEND) != 0 && !strings.HasPrefix(abs, dir+"/") {
				return nil, &os.PathError{Op: "open", Path: path, Err: syscall.EACCES}
			}
		}
		return def(ctx, path, flag, perm)
	}
}

// c29Device reports whether abs is a device or /proc file (which could block
// or never end); the scratch directory itself may live in /dev/shm.
func c29Device(abs, dir string) bool {
	if abs == "/dev/null" || (dir != "" && strings.HasPrefix(abs, dir+"/")) {
		return false
	}
	return strings.HasPrefix(abs, "/dev/") || strings.HasPrefix(abs, "/proc/")
}
