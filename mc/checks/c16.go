package checks

import (
	"bytes"
	"fmt"
	"regexp"
	"slices"
	"strings"

	"mvdan.cc/sh/v3/expand"
	"mvdan.cc/sh/v3/syntax"

	"verif/mc/enum"
	"verif/mc/oracle"
	"verif/mc/vc"
)

func init() { Registry["C16"] = c16 }

type wordCase struct {
	W string `json:"word"`
}

func parseOneWord(src string, lang syntax.LangVariant) (*syntax.Word, error) {
	p := syntax.NewParser(syntax.Variant(lang))
	var words []*syntax.Word
	for w, err := range p.WordsSeq(strings.NewReader(src)) {
		if err != nil {
			return nil, err
		}
		words = append(words, w)
	}
	if len(words) != 1 {
		return nil, fmt.Errorf("%d words", len(words))
	}
	return words[0], nil
}

func printNode(n syntax.Node) string {
	var buf bytes.Buffer
	syntax.NewPrinter().Print(&buf, n)
	return buf.String()
}

func hasBraceExp(w *syntax.Word) bool {
	for _, wp := range w.Parts {
		switch wp := wp.(type) {
		case *syntax.BraceExp:
			return true
		case *syntax.DblQuoted:
			if hasBraceExp(&syntax.Word{Parts: wp.Parts}) {
				return true
			}
		}
	}
	return false
}

func c16(c *vc.Ctx) {
	alphabet := []string{"{", "}", ",", ".", "a", "b", "0", "1", "9", "-", `\`}
	maxLen := vc.Pick(c, 6, 7)
	edge := []string{
		"{9223372036854775806..9223372036854775807}", "{9223372036854775807..9223372036854775806}",
		"{-9223372036854775808..-9223372036854775807}", "{-9223372036854775807..-9223372036854775808}",
		"{9223372036854775805..9223372036854775807..2}", "{1..10..9223372036854775807}",
		"{01..10}", "{-01..1}", "{1..010}", "{00..2}", "{-1..-010}", "{1..9..0}", "{1..9..-2}", "{9..1..2}", "{9..1..-2}",
		"{a..e}", "{e..a..2}", "{a..e..-2}", "{A..c}", "{a..B}", "{1..a}", "{a..1}", "{aa..b}", "{1..2..a}", "{a..c..b}",
		"{1..3}{a,b}", "x{1..2}y{a,b}z", "{a,b{1..2},c}", "{a,{b,{c,d}}}", "{,}", "{,,}", "a{,}b", "{a}", "{}", "{a,b", "a,b}", "{a,b}}", "{{a,b}",
		"{1..16384}", "{1..16385}", "{1..128}{1..128}", "{1..129}{1..128}", "{1..129}{1..127}",
		"{0..0}", "{-0..0}", "{1.1..2}", "{1..2.2}", "{..}", "{1..}", "{..1}", "{1...3}", "{1..2..}", "{1..2..3..4}",
		"é{a,b}", "{é,a}", "{é..z}",
	}
	comp := c16Composite(vc.Pick(c, 3, 4), vc.Pick(c, false, true))
	c.Rule = fmt.Sprintf("(a) all words of <=%d characters over %q (excluding words ending in an unescaped backslash), (b) %d hand-listed range/limit edge words, (c) composite words prefix+group+suffix longer than %d characters: %s; each is parsed as one literal word; SplitBraces must keep the printed form and return true iff a BraceExp results; expand.Fields (globbing off) must equal bash 5.2 `printf '<%%s>' word`; for every word with a brace expansion the word list is also taken three times from the API - BracesSeq printed word by word while iterating, BracesSeq collected into a slice and printed afterwards, expand.Braces - and the three lists must be equal, agree with Fields on the element-limit error, and after backslash removal and dropping empty words equal the Fields list (hence bash's); distinct = distinct expansion results", maxLen, alphabet, len(edge), maxLen, comp.desc)
	c.Assumptions = []string{"bash 5.2.15 is the oracle for brace expansion; an error from expand.Fields is accepted only when bash produces more than 16384 words",
		"the words yielded by BracesSeq/Braces are compared through their text (concatenated literal parts), at yield time and after the whole list has been kept; sharing of parts between words is allowed as long as no kept word changes"}
	c.Reruns = 1
	cfg := func() *expand.Config { return &expand.Config{Env: expand.ListEnviron()} }
	complete := vc.RunBatch(c, 4000, func(emit func(wordCase)) {
		for _, e := range edge {
			emit(wordCase{e})
		}
		comp.each(func(s string) {
			if len(s) <= maxLen {
				return // already enumerated below (the token alphabet is a subset of the character alphabet)
			}
			emit(wordCase{s})
		})
		enum.Strings(alphabet, maxLen, func(s string) {
			if s == "" {
				return
			}
			// trailing unescaped backslash: line continuation, not a word
			n := 0
			for i := len(s) - 1; i >= 0 && s[i] == '\\'; i-- {
				n++
			}
			if n%2 == 1 {
				return
			}
			emit(wordCase{s})
		})
	}, func(batch []wordCase) []*vc.Fail {
		fails := make([]*vc.Fail, len(batch))
		var cases []oracle.EvalCase
		var idx []int
		shErr := map[int]bool{}
		for i, t := range batch {
			key := fmt.Sprintf("%q", t.W)
			w, err := parseOneWord(t.W, syntax.LangBash)
			if err != nil {
				c.Count("not_one_word", 1)
				continue
			}
			// SplitBraces clauses on a copy parsed separately
			w2, _ := parseOneWord(t.W, syntax.LangBash)
			before := printNode(w2)
			var found bool
			if f := guard(key, func() { found = syntax.SplitBraces(w2) }); f != nil {
				fails[i] = f
				continue
			}
			after := printNode(w2)
			if before != after {
				fails[i] = vc.Failf(key+" split-print", "SplitBraces changed the printed form of %q: %q -> %q", t.W, before, after)
				continue
			}
			if found != hasBraceExp(w2) {
				fails[i] = &vc.Fail{Key: key + " split-report", Msg: fmt.Sprintf("SplitBraces(%q) returned %v but the word contains BraceExp = %v", t.W, found, hasBraceExp(w2)), Class: "splitbraces-reports-true-without-braceexp"}
				continue
			}
			var fields []string
			if f := guard(key, func() { fields, err = expand.Fields(cfg(), w) }); f != nil {
				fails[i] = f
				continue
			}
			if found {
				if f := c16Collected(c, key, t.W, w2, fields, err); f != nil {
					fails[i] = f
					continue
				}
			}
			want := "0:"
			if err != nil {
				shErr[len(cases)] = true
				want = "0:ERR>16384"
			} else {
				want += "<" + strings.Join(fields, "><") + ">"
				c.Distinct(want)
			}
			code := "printf -v R '<%s>' " + t.W
			if err != nil {
				code = "set -- " + t.W + "; if (($# > 16384)); then R='ERR>16384'; else R=\"count=$#\"; fi"
			}
			cases = append(cases, oracle.EvalCase{Code: code, Want: want})
			idx = append(idx, i)
			if found && len(t.W) >= maxLen {
				c.Sample(map[string]any{"word": t.W, "fields": fields})
			}
		}
		diffs, err := oracle.BashEvalBatch("set -f", "", cases, "")
		if err != nil {
			panic(err)
		}
		for _, d := range diffs {
			i := idx[d.Index]
			t := batch[i]
			fails[i] = &vc.Fail{Class: c16Class(t.W, cases[d.Index].Want, d.Got), Key: fmt.Sprintf("%q fields", t.W), Msg: fmt.Sprintf("brace expansion of %q: sh %s, bash %s", t.W, cases[d.Index].Want, d.Got)}
		}
		return fails
	})
	c.Finish(complete)
}

var (
	c16ReopenRx    = regexp.MustCompile(`\{([^{},\\]|\\.)*\}.*,.*\}`)
	c16CharRangeRx = regexp.MustCompile(`\{([A-Za-z])\.\.([A-Za-z])(\.\.-?[0-9]+)?\}`)
)

// c16Class names the narrow families recorded as known findings.
func c16Class(w, shWant, bashGot string) string {
	if model, q := c16BashModel(w); !q.giveUp && model == bashGot {
		// real bash printed exactly what the transliteration of its braces.c
		// predicts, and the prediction went through one of the two places
		// where that scanner is not a recursive-descent reading of the word
		if q.rescan {
			return "close-brace-after-commaless-group"
		}
		if q.flat {
			return "dotdot-braces-around-nested-group"
		}
		if q.opaque {
			return "dotdot-braces-around-nested-sequence"
		}
	}
	if c16ReopenRx.MatchString(w) && shWant == "0:<"+c16Unescape(w)+">" {
		// bash keeps looking for a later "}" after a group without a comma,
		// e.g. {a},} gives "a}"; sh leaves the word literal
		return "close-brace-after-commaless-group"
	}
	if m := c16CharRangeRx.FindStringSubmatch(w); m != nil {
		lo, hi := m[1][0], m[2][0]
		if lo > hi {
			lo, hi = hi, lo
		}
		if lo < '\\' && hi > '\\' {
			// the range includes a lone backslash word, which bash then
			// quote-removes to nothing
			return "char-range-includes-backslash"
		}
	}
	return ""
}

// c16Comp is the compositional word generator: every word is
// prefix + group + suffix, where prefix and suffix are token sequences and
// group is a complete brace group. It reaches what plain strings of <=6/7
// characters cannot: many word parts to the left of, between and to the right
// of brace expansions (a literalised "{a}" is three parts, an unclosed "{a,"
// three, "{}" two), i.e. every size 0..12 of the part list that bracesSeqRec
// carries in front of an expansion, at top level and inside the recursion.
type c16Comp struct {
	prefixes, groups, suffixes []string
	desc                       string
}

func c16Composite(maxPrefixTokens int, nested bool) *c16Comp {
	uniqSeqs := func(tokens []string, maxLen int) []string {
		seen := map[string]bool{}
		var out []string
		enum.Seqs(tokens, maxLen, func(seq []string) {
			s := strings.Join(seq, "")
			if !seen[s] {
				seen[s] = true
				out = append(out, s)
			}
		})
		return out
	}
	prefixTokens := []string{"a", "{a}", "{}", "{", "}", ",", "..", `\{`}
	suffixTokens := []string{"a", "{a}", "}", "{0,1}"}
	alts := []string{"", "a", "b"}
	if nested {
		alts = append(alts, "{a,b}")
	}
	cp := &c16Comp{prefixes: uniqSeqs(prefixTokens, maxPrefixTokens), suffixes: uniqSeqs(suffixTokens, 2)}
	for n := 2; n <= 3; n++ {
		var rec func(cur []string)
		rec = func(cur []string) {
			if len(cur) == n {
				cp.groups = append(cp.groups, "{"+strings.Join(cur, ",")+"}")
				return
			}
			use := alts
			if n == 3 {
				use = alts[:3] // the nested alternative only in two-alternative groups
			}
			for _, a := range use {
				rec(append(cur[:len(cur):len(cur)], a))
			}
		}
		rec(nil)
	}
	seqGroups := []string{"{0..1}", "{a..b}", "{9..0..9}"}
	cp.groups = append(cp.groups, seqGroups...)
	cp.desc = fmt.Sprintf("prefix = every sequence of <=%d tokens over %q (%d distinct strings), group = {x,y} with every alternative in %q, {x,y,z} with every alternative in %q, plus %q (%d groups), suffix = every sequence of <=2 tokens over %q (%d distinct strings)",
		maxPrefixTokens, prefixTokens, len(cp.prefixes), alts, alts[:3], seqGroups, len(cp.groups), suffixTokens, len(cp.suffixes))
	return cp
}

func (cp *c16Comp) each(f func(string)) {
	for _, p := range cp.prefixes {
		for _, g := range cp.groups {
			for _, s := range cp.suffixes {
				f(p + g + s)
			}
		}
	}
}

// c16WordText is the text of a word produced by brace expansion: its literal
// parts concatenated (any other part kind is printed).
func c16WordText(w *syntax.Word) string {
	if w == nil {
		return "<nil>"
	}
	var sb strings.Builder
	for _, wp := range w.Parts {
		if lit, ok := wp.(*syntax.Lit); ok {
			sb.WriteString(lit.Value)
		} else {
			sb.WriteString(printNode(wp))
		}
	}
	return sb.String()
}

func c16Join(l []string) string { return "<" + strings.Join(l, "><") + ">" }

// c16Collected is the clause for callers that KEEP the words of a brace
// expansion: the list obtained by collecting BracesSeq, and the list returned
// by Braces, must be the list seen while iterating, and that list (after quote
// removal, without empty words) must be what Fields returned.
func c16Collected(c *vc.Ctx, key, src string, w *syntax.Word, fields []string, fieldsErr error) *vc.Fail {
	var iterTexts, collTexts, bracesTexts, lits []string
	var iterErr, collErr error
	var coll, all []*syntax.Word
	if f := guard(key+" collect", func() {
		for x, err := range expand.BracesSeq(nil, w) {
			if err != nil {
				iterErr = err
				break
			}
			iterTexts = append(iterTexts, c16WordText(x))
		}
		for x, err := range expand.BracesSeq(nil, w) {
			if err != nil {
				collErr = err
				break
			}
			coll = append(coll, x)
		}
		for _, x := range coll {
			collTexts = append(collTexts, c16WordText(x))
		}
		if iterErr == nil {
			// Braces has no element limit; only asked when the list is known to be small
			all = expand.Braces(w)
			for _, x := range all {
				bracesTexts = append(bracesTexts, c16WordText(x))
			}
		}
	}); f != nil {
		return f
	}
	c.Count("words_with_expansion_collected", 1)
	if (iterErr != nil) != (fieldsErr != nil) || (collErr != nil) != (fieldsErr != nil) {
		return vc.Failf(key+" collect-err", "brace expansion of %q: Fields error %v, BracesSeq error %v (second iteration %v)", src, fieldsErr, iterErr, collErr)
	}
	if !slices.Equal(iterTexts, collTexts) {
		return vc.Failf(key+" collect-seq", "brace expansion of %q: BracesSeq yields %s one at a time, but the same words collected into a slice read %s", src, c16Join(iterTexts), c16Join(collTexts))
	}
	if iterErr != nil {
		c.Count("braces_not_called_over_limit", 1)
		return nil
	}
	if !slices.Equal(iterTexts, bracesTexts) {
		return vc.Failf(key+" collect-braces", "brace expansion of %q: BracesSeq yields %s one at a time, expand.Braces returns %s", src, c16Join(iterTexts), c16Join(bracesTexts))
	}
	// quote removal and removal of empty words, as Fields (and bash) do after
	// brace expansion; the words hold only literal characters and backslashes
	for _, t := range bracesTexts {
		if u := c16Unescape(t); u != "" {
			lits = append(lits, u)
		}
	}
	if !slices.Equal(lits, fields) {
		return vc.Failf(key+" collect-fields", "brace expansion of %q: the words returned by expand.Braces are, after quote removal and without empty words, %s; Fields gives %s", src, c16Join(lits), c16Join(fields))
	}
	return nil
}
