package checks

import (
	"bytes"
	"fmt"
	"regexp"
	"strings"

	"mvdan.cc/sh/v3/expand"
	"mvdan.cc/sh/v3/syntax"

	"verif/mc/enum"
	"verif/mc/oracle"
	"verif/mc/vc"
)

func init() { Registry["C16"] = c16 }

type wordCase struct {
	W string `json:"word"`
}

func parseOneWord(src string, lang syntax.LangVariant) (*syntax.Word, error) {
	p := syntax.NewParser(syntax.Variant(lang))
	var words []*syntax.Word
	for w, err := range p.WordsSeq(strings.NewReader(src)) {
		if err != nil {
			return nil, err
		}
		words = append(words, w)
	}
	if len(words) != 1 {
		return nil, fmt.Errorf("%d words", len(words))
	}
	return words[0], nil
}

func printNode(n syntax.Node) string {
	var buf bytes.Buffer
	syntax.NewPrinter().Print(&buf, n)
	return buf.String()
}

func hasBraceExp(w *syntax.Word) bool {
	for _, wp := range w.Parts {
		switch wp := wp.(type) {
		case *syntax.BraceExp:
			return true
		case *syntax.DblQuoted:
			if hasBraceExp(&syntax.Word{Parts: wp.Parts}) {
				return true
			}
		}
	}
	return false
}

func c16(c *vc.Ctx) {
	alphabet := []string{"{", "}", ",", ".", "a", "b", "0", "1", "9", "-", `\`}
	maxLen := vc.Pick(c, 6, 7)
	edge := []string{
		"{9223372036854775806..9223372036854775807}", "{9223372036854775807..9223372036854775806}",
		"{-9223372036854775808..-9223372036854775807}", "{-9223372036854775807..-9223372036854775808}",
		"{9223372036854775805..9223372036854775807..2}", "{1..10..9223372036854775807}",
		"{01..10}", "{-01..1}", "{1..010}", "{00..2}", "{-1..-010}", "{1..9..0}", "{1..9..-2}", "{9..1..2}", "{9..1..-2}",
		"{a..e}", "{e..a..2}", "{a..e..-2}", "{A..c}", "{a..B}", "{1..a}", "{a..1}", "{aa..b}", "{1..2..a}", "{a..c..b}",
		"{1..3}{a,b}", "x{1..2}y{a,b}z", "{a,b{1..2},c}", "{a,{b,{c,d}}}", "{,}", "{,,}", "a{,}b", "{a}", "{}", "{a,b", "a,b}", "{a,b}}", "{{a,b}",
		"{1..16384}", "{1..16385}", "{1..128}{1..128}", "{1..129}{1..128}", "{1..129}{1..127}",
		"{0..0}", "{-0..0}", "{1.1..2}", "{1..2.2}", "{..}", "{1..}", "{..1}", "{1...3}", "{1..2..}", "{1..2..3..4}",
		"é{a,b}", "{é,a}", "{é..z}",
	}
	c.Rule = fmt.Sprintf("all words of <=%d characters over %q (excluding words ending in an unescaped backslash) plus %d hand-listed range/limit edge words; each is parsed as one literal word; SplitBraces must keep the printed form and return true iff a BraceExp results; expand.Fields (globbing off) must equal bash 5.2 `printf '<%%s>' word`; distinct = distinct expansion results", maxLen, alphabet, len(edge))
	c.Assumptions = []string{"bash 5.2.15 is the oracle for brace expansion; an error from expand.Fields is accepted only when bash produces more than 16384 words"}
	c.Reruns = 1
	cfg := func() *expand.Config { return &expand.Config{Env: expand.ListEnviron()} }
	complete := vc.RunBatch(c, 4000, func(emit func(wordCase)) {
		for _, e := range edge {
			emit(wordCase{e})
		}
		enum.Strings(alphabet, maxLen, func(s string) {
			if s == "" {
				return
			}
			// trailing unescaped backslash: line continuation, not a word
			n := 0
			for i := len(s) - 1; i >= 0 && s[i] == '\\'; i-- {
				n++
			}
			if n%2 == 1 {
				return
			}
			emit(wordCase{s})
		})
	}, func(batch []wordCase) []*vc.Fail {
		fails := make([]*vc.Fail, len(batch))
		var cases []oracle.EvalCase
		var idx []int
		shErr := map[int]bool{}
		for i, t := range batch {
			key := fmt.Sprintf("%q", t.W)
			w, err := parseOneWord(t.W, syntax.LangBash)
			if err != nil {
				c.Count("not_one_word", 1)
				continue
			}
			// SplitBraces clauses on a copy parsed separately
			w2, _ := parseOneWord(t.W, syntax.LangBash)
			before := printNode(w2)
			var found bool
			if f := guard(key, func() { found = syntax.SplitBraces(w2) }); f != nil {
				fails[i] = f
				continue
			}
			after := printNode(w2)
			if before != after {
				fails[i] = vc.Failf(key+" split-print", "SplitBraces changed the printed form of %q: %q -> %q", t.W, before, after)
				continue
			}
			if found != hasBraceExp(w2) {
				fails[i] = &vc.Fail{Key: key + " split-report", Msg: fmt.Sprintf("SplitBraces(%q) returned %v but the word contains BraceExp = %v", t.W, found, hasBraceExp(w2)), Class: "splitbraces-reports-true-without-braceexp"}
				continue
			}
			var fields []string
			if f := guard(key, func() { fields, err = expand.Fields(cfg(), w) }); f != nil {
				fails[i] = f
				continue
			}
			want := "0:"
			if err != nil {
				shErr[len(cases)] = true
				want = "0:ERR>16384"
			} else {
				want += "<" + strings.Join(fields, "><") + ">"
				c.Distinct(want)
			}
			code := "printf -v R '<%s>' " + t.W
			if err != nil {
				code = "set -- " + t.W + "; if (($# > 16384)); then R='ERR>16384'; else R=\"count=$#\"; fi"
			}
			cases = append(cases, oracle.EvalCase{Code: code, Want: want})
			idx = append(idx, i)
			if found && len(t.W) >= maxLen {
				c.Sample(map[string]any{"word": t.W, "fields": fields})
			}
		}
		diffs, err := oracle.BashEvalBatch("set -f", "", cases, "")
		if err != nil {
			panic(err)
		}
		for _, d := range diffs {
			i := idx[d.Index]
			t := batch[i]
			fails[i] = &vc.Fail{Class: c16Class(t.W, cases[d.Index].Want), Key: fmt.Sprintf("%q fields", t.W), Msg: fmt.Sprintf("brace expansion of %q: sh %s, bash %s", t.W, cases[d.Index].Want, d.Got)}
		}
		return fails
	})
	c.Finish(complete)
}

var (
	c16ReopenRx    = regexp.MustCompile(`\{([^{},\\]|\\.)*\}.*,.*\}`)
	c16CharRangeRx = regexp.MustCompile(`\{([A-Za-z])\.\.([A-Za-z])(\.\.-?[0-9]+)?\}`)
)

// c16Class names the two narrow families recorded as known findings.
func c16Class(w, shWant string) string {
	if c16ReopenRx.MatchString(w) && shWant == "0:<"+unescapePattern(w)+">" {
		// bash keeps looking for a later "}" after a group without a comma,
		// e.g. {a},} gives "a}"; sh leaves the word literal
		return "close-brace-after-commaless-group"
	}
	if m := c16CharRangeRx.FindStringSubmatch(w); m != nil {
		lo, hi := m[1][0], m[2][0]
		if lo > hi {
			lo, hi = hi, lo
		}
		if lo < '\\' && hi > '\\' {
			// the range includes a lone backslash word, which bash then
			// quote-removes to nothing
			return "char-range-includes-backslash"
		}
	}
	return ""
}
