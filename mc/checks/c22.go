package checks

import (
	"fmt"
	"strings"
	"unicode/utf8"

	"mvdan.cc/sh/v3/expand"
	"mvdan.cc/sh/v3/syntax"

	"verif/mc/enum"
	"verif/mc/oracle"
	"verif/mc/vc"
)

func init() { Registry["C22"] = c22 }

// c22Case is one (IFS, word, value of v) triple. The word is the
// concatenation of the texts of Parts (indices into c22Parts).
type c22Case struct {
	IFS   int    `json:"ifs"` // index into c22IFS
	Parts []int  `json:"parts"`
	V     string `json:"v"`
}

type c22IFSVal struct {
	Unset bool
	Val   string
}

var c22IFS = []c22IFSVal{
	{Unset: true}, {Val: ""}, {Val: " "}, {Val: ":"}, {Val: ": "}, {Val: "::"}, {Val: " \t\n"}, {Val: "é"}, {Val: "x "},
}

type c22Part struct {
	Text   string
	UsesV  bool
	Scalar bool // expand.Fields with a ListEnviron can evaluate it
	Cmd    bool // command substitution: forks in bash, small sub-enumeration only
}

var c22Parts = []c22Part{
	{Text: "L", Scalar: true},
	{Text: "'q r'", Scalar: true},
	{Text: `"q r"`, Scalar: true},
	{Text: "${v}", UsesV: true, Scalar: true},
	{Text: `"${v}"`, UsesV: true, Scalar: true},
	{Text: "$@"},
	{Text: `"$@"`},
	{Text: "$*"},
	{Text: `"$*"`},
	{Text: "${a[@]}"},
	{Text: `"${a[@]}"`},
	{Text: `"${a[*]}"`},
	{Text: "${e}", Scalar: true},
	{Text: `""`, Scalar: true},
	// 14, 15: only in the command substitution sub-enumeration
	{Text: `$(printf %s "$v")`, UsesV: true, Cmd: true},
	{Text: `"$(printf %s "$v")"`, UsesV: true, Cmd: true},
}

const c22NMainParts = 14

// c22Vals are the values of v; the quick tier uses the first c22NQuickVals.
var c22Vals = []string{
	"a:b", ":a", "a:", "a::b", " a  b ", "a : b", ":", "::", "", "aéb", "axb x",
	"éa", "aééb", "xx", "a\tb\n", " ",
	" :a", "a: ", ": :", "a b", "aé",
}

const c22NQuickVals = 16

// c22WideVals (round 3, byte/rune confusion in the IFS membership test): values
// holding non-ASCII characters of 2, 3 and 4 UTF-8 bytes whose code point cut
// to its low byte (or low 16 bits) is an IFS byte: † U+2020, Ġ U+0120 and
// 𐀠 U+10020 -> space, ĉ U+0109 -> tab, Ċ U+010A -> newline, ĺ U+013A -> ':'.
// None of them may split under any of c22IFS. They are crossed with every IFS
// value and the short words over c22WideParts only (both tiers).
var c22WideVals = []string{
	"a†b", "aĠb", "aĉb", "aĊb", "aĺb", "a𐀠b",
	"†a", "a†", "ĺa", "aĺ", "a†ĺ b:c",
}

// L, ${v}, "${v}", 'q r', ${e}
var c22WideParts = []int{0, 3, 4, 1, 12}

func (t c22Case) word() string {
	var sb strings.Builder
	for _, p := range t.Parts {
		sb.WriteString(c22Parts[p].Text)
	}
	return sb.String()
}

func (t c22Case) usesV() bool {
	for _, p := range t.Parts {
		if c22Parts[p].UsesV {
			return true
		}
	}
	return false
}

func (t c22Case) scalarOnly() bool {
	for _, p := range t.Parts {
		if !c22Parts[p].Scalar {
			return false
		}
	}
	return true
}

func (t c22Case) hasCmd() bool {
	for _, p := range t.Parts {
		if c22Parts[p].Cmd {
			return true
		}
	}
	return false
}

func c22IFSSetup(i c22IFSVal) string {
	if i.Unset {
		return "unset IFS"
	}
	return "IFS=" + oracle.ShQuote(i.Val)
}

// The same setup text is used for both shells.
func (t c22Case) setup() string {
	return c22IFSSetup(c22IFS[t.IFS]) + "; v=" + oracle.ShQuote(t.V) + "; set -- '1 2' 3; "
}

const c22BashPrelude = `set -f
a=("p q" r "")
e=
__f() { R=$#; local __t; if (($#)); then printf -v __t '<%s>' "$@"; R=$R$__t; fi; }
`

// The interpreter runs the same setup text, then `set -- WORD`, then prints
// what __f stores in R.
var (
	c22InterpPre = c2xParse(`set -f
a=("p q" r "")
e=
`)
	c2xPrintParams = c2xParse(`printf '%s' "$#"; if [ "$#" -gt 0 ]; then printf '<%s>' "$@"; fi
`)
)

func c22Render(fields []string) string {
	s := fmt.Sprint(len(fields))
	if len(fields) > 0 {
		s += "<" + strings.Join(fields, "><") + ">"
	}
	return s
}

func c22(c *vc.Ctx) {
	maxParts := vc.Pick(c, 3, 4)
	vals := c22Vals[:vc.Pick(c, c22NQuickVals, len(c22Vals))]
	var partTexts []string
	for _, p := range c22Parts[:c22NMainParts] {
		partTexts = append(partTexts, p.Text)
	}
	c.Rule = fmt.Sprintf("IFS in {unset,\"\",\" \",\":\",\": \",\"::\",\" \\t\\n\",\"é\",\"x \"} x every word of 1..%d parts from %q x v in %q (v varied only when the word mentions it), with $@=('1 2' 3), a=('p q' r ''), e=''; plus every word of 1..2 parts from {L, ${v}, \"q r\", $(printf %%s \"$v\"), \"$(printf %%s \"$v\")\"} containing a command substitution; plus every word of 1..2 parts from {L, ${v}, \"${v}\", 'q r', ${e}} mentioning v x v in %q (non-ASCII characters whose code point cut to 8 or 16 bits is an IFS byte). Globbing off. For each: field count and fields of the interpreter (fresh Runner) = bash 5.2 (no-fork eval), and for words built only from scalar parts also expand.Fields with ListEnviron(IFS,v,e). distinct = distinct (field list) outcomes", maxParts, partTexts, vals, c22WideVals)
	c.Assumptions = []string{"bash 5.2.15 (LC_ALL=C.utf8) is the oracle for field splitting", "functions, printf and \"$@\" of the interpreter are trusted to render the fields"}
	c.Reruns = 1

	idxs := make([]int, c22NMainParts)
	for i := range idxs {
		idxs[i] = i
	}
	csParts := []int{0, 3, 2, 14, 15}
	complete := vc.RunBatch(c, 1500, func(emit func(c22Case)) {
		for ifs := range c22IFS {
			// byte/rune confusion sub-enumeration
			enum.Seqs(c22WideParts, 2, func(ps []int) {
				t := c22Case{IFS: ifs, Parts: append([]int(nil), ps...)}
				if !t.usesV() {
					return
				}
				for _, v := range c22WideVals {
					t.V = v
					emit(t)
				}
			})
		}
		for ifs := range c22IFS {
			// command substitution sub-enumeration
			enum.Seqs(csParts, 2, func(ps []int) {
				t := c22Case{IFS: ifs, Parts: append([]int(nil), ps...)}
				if !t.hasCmd() {
					return
				}
				for _, v := range vals {
					t.V = v
					emit(t)
				}
			})
		}
		for ifs := range c22IFS {
			enum.Seqs(idxs, maxParts, func(ps []int) {
				if len(ps) == 0 {
					return
				}
				t := c22Case{IFS: ifs, Parts: append([]int(nil), ps...)}
				if !t.usesV() {
					t.V = vals[0]
					emit(t)
					return
				}
				for _, v := range vals {
					t.V = v
					emit(t)
				}
			})
		}
	}, func(batch []c22Case) []*vc.Fail {
		fails := make([]*vc.Fail, len(batch))
		type src struct {
			i    int
			what string // "interp" or "expand.Fields"
		}
		var cases []oracle.EvalCase
		var srcs []src
		for i, t := range batch {
			word := t.word()
			code := t.setup() + "__f " + word
			want := c2xRun(c22InterpPre, t.setup()+"set -- "+word+"\n", c2xPrintParams)
			c.Distinct(want)
			cases = append(cases, oracle.EvalCase{Code: code, Want: want})
			srcs = append(srcs, src{i, "interp"})
			if t.hasCmd() {
				c.Count("cmdsubst_cases", 1)
			}
			if !c23IsASCII(strings.ReplaceAll(t.V, "é", "")) {
				c.Count("low_byte_collision_value_cases", 1)
			}
			if len(t.Parts) == maxParts && t.IFS == 4 {
				c.Sample(map[string]any{"ifs": c22IFS[t.IFS].Val, "word": word, "v": t.V, "interp": want})
			}
			if t.scalarOnly() {
				c.Count("expand_fields_cases", 1)
				env := []string{"v=" + t.V, "e="}
				if !c22IFS[t.IFS].Unset {
					env = append(env, "IFS="+c22IFS[t.IFS].Val)
				}
				w, err := parseOneWord(word, syntax.LangBash)
				if err != nil {
					fails[i] = vc.Failf(fmt.Sprintf("word=%s parse", word), "harness: cannot parse %q as one word: %v", word, err)
					continue
				}
				var fields []string
				if f := guard(fmt.Sprintf("ifs=%d word=%s v=%q", t.IFS, word, t.V), func() {
					fields, err = expand.Fields(&expand.Config{Env: expand.ListEnviron(env...)}, w)
				}); f != nil {
					fails[i] = f
					continue
				}
				fw := "0:" + c22Render(fields)
				if err != nil {
					fw = "ERROR " + err.Error()
				}
				if fw != want {
					cases = append(cases, oracle.EvalCase{Code: code, Want: fw})
					srcs = append(srcs, src{i, "expand.Fields"})
				}
			}
		}
		diffs, err := oracle.BashEvalBatch(c22BashPrelude, "", cases, "")
		if err != nil {
			panic(err)
		}
		for _, d := range diffs {
			s := srcs[d.Index]
			t := batch[s.i]
			word := t.word()
			sh := cases[d.Index].Want
			ifs := c22IFS[t.IFS]
			ifsS := fmt.Sprintf("%q", ifs.Val)
			if ifs.Unset {
				ifsS = "unset"
			}
			bash := d.Got
			ref := "0:" + c22Render(c22Model(t, c22Toggles{}))
			class := ""
			if !utf8.ValidString(bash) {
				// bash 5.2 bug: with a multi-byte IFS character a quoted part
				// following (or holding) that character loses bytes, e.g.
				// IFS=é v=aé; ${v}"${v}" gives <a><a\303>. All inputs are
				// valid UTF-8, so an invalid result cannot be right: judge
				// the case with the reference model instead.
				c.Count("bash_result_invalid_utf8_judged_by_model", 1)
				if sh == ref {
					continue
				}
				bash = ref + " (reference model; bash printed invalid UTF-8)"
				class = c22Class(t, sh)
			} else if ref != bash {
				// the model cannot explain bash: never classify
				c.Count("reference_model_differs_from_bash", 1)
			} else {
				class = c22Class(t, sh)
			}
			f := &vc.Fail{
				Key:   fmt.Sprintf("IFS=%s word=%s v=%q %s=%s bash=%s", ifsS, word, t.V, s.what, sh, bash),
				Msg:   fmt.Sprintf("IFS=%s v=%q $@=('1 2' 3) a=('p q' r ''): fields of %s: %s %s, bash %s", ifsS, t.V, word, s.what, sh, bash),
				Class: class,
			}
			switch {
			case fails[s.i] == nil:
				fails[s.i] = f
			case fails[s.i].Class != f.Class:
				// interp and expand.Fields differ from bash in different
				// ways: keep the unclassified one, if any
				c.Count("interp_and_expand_fields_differ_differently", 1)
				if f.Class == "" {
					fails[s.i] = f
				}
			}
		}
		return fails
	})
	c.Finish(complete)
}
