package checks

import (
	"bytes"
	"context"
	"errors"
	"fmt"
	"io"
	"os"
	"path/filepath"
	"sort"
	"strings"
	"sync"
	"sync/atomic"
	"syscall"
	"time"

	"mvdan.cc/sh/v3/expand"
	"mvdan.cc/sh/v3/interp"
	"mvdan.cc/sh/v3/syntax"

	"verif/mc/vc"
)

func init() { Registry["C30"] = c30 }

// c30Case is one unit of work.
type c30Case struct {
	// Part "reset": one history on one Runner, then Reset + every observer,
	// each compared with a brand-new Runner (clause 1). Part "incr": one
	// program run statement by statement versus as a whole file (clause 2).
	Part string `json:"part"`
	// reset
	Cfg  int   `json:"cfg,omitempty"`
	Hist []int `json:"hist,omitempty"`
	// Chain: observers are run one after the other on the same Runner with a
	// Reset before each (instead of replaying the history for each observer).
	Chain bool `json:"chain,omitempty"`
	// KeyOnly: only execute the history and record its canonical state.
	KeyOnly bool `json:"key_only,omitempty"`
	// HistNames is for the reader of a replay file only.
	HistNames []string `json:"hist_names,omitempty"`
	// incr
	Src    string `json:"src,omitempty"`
	Origin string `json:"origin,omitempty"` // "corpus" or "gen"
}

// ---------------------------------------------------------------- scratch

// c30Buf is a goroutine-safe output buffer (background jobs write to it).
type c30Buf struct {
	mu sync.Mutex
	b  bytes.Buffer
}

func (b *c30Buf) Write(p []byte) (int, error) {
	b.mu.Lock()
	defer b.mu.Unlock()
	return b.b.Write(p)
}

func (b *c30Buf) take() string {
	b.mu.Lock()
	defer b.mu.Unlock()
	s := b.b.String()
	b.b.Reset()
	return s
}

// c30Scratch is a private directory tree of one worker at a time. All
// scratch directories have names of the same length; their path is replaced
// by "/S" in everything that is compared or keyed.
type c30Scratch struct {
	dir   string
	stdin *os.File // stdin.txt, shared by the Runners built one after the other in this scratch
}

var (
	c30Base     string
	c30BaseOnce sync.Once
	c30Seq      atomic.Int64
	c30Pool     = sync.Pool{}
)

const c30StdinLine = "stdin-line"

func c30GetScratch() *c30Scratch {
	if s, ok := c30Pool.Get().(*c30Scratch); ok && s != nil {
		return s
	}
	c30BaseOnce.Do(func() {
		var err error
		c30Base, err = os.MkdirTemp("", "verif-c30-")
		if err != nil {
			panic(err)
		}
	})
	s := &c30Scratch{dir: filepath.Join(c30Base, fmt.Sprintf("w%05d", c30Seq.Add(1)))}
	s.populate()
	return s
}

func c30PutScratch(s *c30Scratch) { c30Pool.Put(s) }

// populate (re)creates the fixed tree used by clause 1.
func (s *c30Scratch) populate() {
	must := func(err error) {
		if err != nil {
			panic(err)
		}
	}
	must(os.RemoveAll(s.dir))
	for _, d := range []string{"", "sub", "sub/deep", "home", "tmp", "work"} {
		must(os.MkdirAll(filepath.Join(s.dir, d), 0o755))
	}
	files := map[string]string{
		"a.txt":          "a\n",
		"b.txt":          "b\n",
		".hid":           "h\n",
		"out.txt":        "",
		"err.txt":        "",
		"in.txt":         strings.Repeat("other-input\n", 64),
		"stdin.txt":      strings.Repeat(c30StdinLine+"\n", 256),
		"lib.sh":         "libv=1\nset -- s1 s2\n",
		"sub/y.txt":      "y\n",
		"sub/deep/x.txt": "x\n",
	}
	for name, data := range files {
		must(os.WriteFile(filepath.Join(s.dir, name), []byte(data), 0o644))
	}
}

// resetWork empties the work directory used by clause 2 programs.
func (s *c30Scratch) resetWork() string {
	w := filepath.Join(s.dir, "work")
	if ents, err := os.ReadDir(w); err == nil && len(ents) == 0 {
		return w
	}
	os.RemoveAll(w)
	if err := os.MkdirAll(w, 0o755); err != nil {
		panic(err)
	}
	return w
}

func (s *c30Scratch) norm(str string) string {
	return strings.ReplaceAll(str, s.dir, "/S")
}

func c30Cleanup() {
	if c30Base != "" {
		os.RemoveAll(c30Base)
	}
}

// ---------------------------------------------------------------- runners

// c30Cfg is one set of constructor options. Every option that Reset has to
// restore is present in at least one configuration.
type c30Cfg struct {
	Name        string
	Params      []string // interp.Params arguments (nil = option not given)
	DirRel      string   // interp.Dir relative to the scratch dir
	Stdin       bool     // stdin is a file of identical lines (false: nil stdin)
	Interactive bool
}

var c30Cfgs = []c30Cfg{
	{Name: "params", Params: []string{"--", "p1", "p2 x", "p3"}, DirRel: ".", Stdin: true},
	{Name: "opts", Params: []string{"-f", "-o", "pipefail", "--", "q1"}, DirRel: "sub", Interactive: true},
	{Name: "errexit", Params: []string{"-e", "-u"}, DirRel: ".", Stdin: true},
}

var errC30Fatal = errors.New("c30: fatal error from the exec handler")

// c30Exec is the stub ExecHandler middleware: no real process is ever
// started. "failfatal" returns a non-exit-status error (fatal for the shell),
// "exitN" returns exit status N, "cat" without arguments copies stdin, every
// other command reports "not found" with status 127.
func c30Exec(next interp.ExecHandlerFunc) interp.ExecHandlerFunc {
	return func(ctx context.Context, args []string) error {
		hc := interp.HandlerCtx(ctx)
		switch {
		case args[0] == "failfatal":
			return errC30Fatal
		case args[0] == "exit7":
			return interp.ExitStatus(7)
		case args[0] == "cat" && len(args) == 1:
			if hc.Stdin != nil {
				io.Copy(hc.Stdout, hc.Stdin)
			}
			return nil
		}
		fmt.Fprintf(hc.Stderr, "%q: executable file not found (stub)\n", args[0])
		return interp.ExitStatus(127)
	}
}

// c30Open refuses to create or write files outside the scratch directory
// (the corpus programs were written for a throw-away directory).
func c30Open(scratch string) interp.OpenHandlerFunc {
	def := interp.DefaultOpenHandler()
	return func(ctx context.Context, path string, flag int, perm os.FileMode) (io.ReadWriteCloser, error) {
		if flag&(os.O_WRONLY|os.O_RDWR|os.O_CREATE|os.O_TRUNC|os.O_APPEND) != 0 {
			abs := path
			if !filepath.IsAbs(abs) {
				abs = filepath.Join(interp.HandlerCtx(ctx).Dir, abs)
			}
			abs = filepath.Clean(abs)
			if abs != "/dev/null" && abs != scratch && !strings.HasPrefix(abs, scratch+"/") {
				return nil, &os.PathError{Op: "open", Path: path, Err: syscall.EACCES}
			}
		}
		return def(ctx, path, flag, perm)
	}
}

// c30Run is a Runner together with the streams it was built with.
type c30Run struct {
	r   *interp.Runner
	out *c30Buf
	err *c30Buf
	s   *c30Scratch
}

func (x *c30Run) close() {}

// newRunner builds a brand-new Runner for configuration cfg in scratch s.
// dir overrides the working directory when non-empty.
func (s *c30Scratch) newRunner(cfg c30Cfg, dir string) *c30Run {
	x := &c30Run{out: &c30Buf{}, err: &c30Buf{}, s: s}
	var in io.Reader
	if cfg.Stdin {
		// One open file per scratch directory, rewound for every new Runner
		// (all its lines are identical, and Runners are used sequentially).
		if s.stdin == nil {
			f, err := os.Open(filepath.Join(s.dir, "stdin.txt"))
			if err != nil {
				panic(err)
			}
			s.stdin = f
		}
		if _, err := s.stdin.Seek(0, io.SeekStart); err != nil {
			panic(err)
		}
		in = s.stdin
	}
	if dir == "" {
		dir = filepath.Join(s.dir, cfg.DirRel)
	}
	opts := []interp.RunnerOption{
		interp.Env(expand.ListEnviron(
			"HOME="+filepath.Join(s.dir, "home"),
			"PATH=/nonexistent-c30",
			"TMPDIR="+filepath.Join(s.dir, "tmp"),
			"GLOBAL=foo",
			"LANG=C",
		)),
		interp.Dir(dir),
		interp.StdIO(in, x.out, x.err),
		interp.ExecHandlers(c30Exec),
		interp.OpenHandler(c30Open(s.dir)),
	}
	if cfg.Params != nil {
		opts = append(opts, interp.Params(append([]string(nil), cfg.Params...)...))
	}
	if cfg.Interactive {
		opts = append(opts, interp.Interactive(true))
	}
	r, err := interp.New(opts...)
	if err != nil {
		panic(err)
	}
	x.r = r
	return x
}

// c30Res is everything the property compares after one Run call (or after
// the last Run call of a sequence; Stdout/Stderr then hold all the output).
type c30Res struct {
	Stdout string `json:"stdout"`
	Stderr string `json:"stderr"`
	Err    string `json:"err"` // "" | "exit status N" | other error text (fatal)
	Exited bool   `json:"exited"`
	Vars   string `json:"vars"`
	Panic  string `json:"panic,omitempty"`
	// varsAfterTrap (statement-wise runs with a pending EXIT trap only) is
	// the Vars dump after the trap was made to run.
	varsAfterTrap string
}

func c30ErrText(err error) string {
	if err == nil {
		return ""
	}
	if _, ok := err.(interp.ExitStatus); ok {
		return err.Error()
	}
	return fmt.Sprintf("%T: %v", err, err)
}

// runNode runs one node and returns the error text; a panic is recorded.
func (x *c30Run) runNode(ctx context.Context, n syntax.Node) (errText string, panicked string) {
	defer func() {
		if p := recover(); p != nil {
			panicked = fmt.Sprint(p)
		}
	}()
	return c30ErrText(x.r.Run(ctx, n)), ""
}

// result collects the comparison record after the last Run call.
func (x *c30Run) result(errText, panicked string) c30Res {
	res := c30Res{Err: errText, Panic: panicked}
	res.Stdout = x.s.norm(x.out.take())
	res.Stderr = x.s.norm(x.err.take())
	if panicked == "" {
		res.Exited = x.r.Exited()
		res.Vars = x.s.norm(c30DumpVars(x.r.Vars))
	}
	return res
}

// diffFields names the compared components in which a and b differ.
// Exited is deliberately not among them: the property speaks of output,
// exit status and variables.
func c30DiffFields(a, b c30Res) []string {
	var d []string
	if a.Panic != b.Panic {
		d = append(d, "panic")
	}
	if a.Stdout != b.Stdout {
		d = append(d, "stdout")
	}
	if a.Stderr != b.Stderr {
		d = append(d, "stderr")
	}
	if a.Err != b.Err {
		d = append(d, "status")
	}
	if a.Vars != b.Vars {
		d = append(d, "vars")
	}
	return d
}

// c30VarsDiff lists the variable lines present in only one of two dumps.
func c30VarsDiff(a, b string) string {
	la, lb := strings.Split(a, "\n"), strings.Split(b, "\n")
	in := func(ls []string) map[string]bool {
		m := map[string]bool{}
		for _, l := range ls {
			m[l] = true
		}
		return m
	}
	ma, mb := in(la), in(lb)
	var out []string
	for _, l := range la {
		if !mb[l] {
			out = append(out, "-"+l)
		}
	}
	for _, l := range lb {
		if !ma[l] {
			out = append(out, "+"+l)
		}
	}
	sort.Strings(out)
	return strings.Join(out, "\n")
}

func c30Parse(src string) (*syntax.File, error) {
	return syntax.NewParser(syntax.Variant(syntax.LangBash)).Parse(strings.NewReader(src), "")
}

// ---------------------------------------------------------------- driver

// c30Stats collects the explicit-state bookkeeping.
type c30Stats struct {
	mu      sync.Mutex
	states  map[string]bool   // canonical state keys (configuration included)
	trans   map[string]bool   // state key + observer
	level   map[string]string // case id -> state key, for the level being run
	traces  int64             // (history, observer) comparisons against a fresh Runner
	steps   int64             // Run/Reset calls executed on the real Runner
	histRun int64
}

func c30HistID(cfg int, h []int) string { return fmt.Sprint(cfg, h) }

func c30(c *vc.Ctx) {
	c.Level = "model_checking"
	c.Reruns = 2
	st := &c30Stats{states: map[string]bool{}, trans: map[string]bool{}, level: map[string]string{}}
	pol, obs := c30Polluters, c30Observers
	replayDepth := vc.Pick(c, 1, 2) // up to here the history is replayed for each observer separately
	fullDepth := vc.Pick(c, 2, 3)   // every history up to this length, every configuration
	maxDepth := vc.Pick(c, 3, 4)    // then one more level from the distinct states only
	ncfg := len(c30Cfgs)
	deepCfgs := 1 // the pruned levels are explored for the first configuration(s) only

	run := func(t c30Case) *vc.Fail {
		switch t.Part {
		case "reset":
			return c30Reset(c, st, t)
		case "incr":
			return c30Incr(c, t)
		}
		return vc.Failf("bad case", "unknown part %q", t.Part)
	}
	if c.Replay != "" {
		vc.Run(c, func(func(c30Case)) {}, run)
		c.Finish(true)
	}

	incrNote := c30IncrPrograms(c, nil)
	c.Rule = fmt.Sprintf("clause 1 (explicit-state search on one real Runner): histories over %d state-polluting operations (whole-file Run of a program; %d of them are statement-at-a-time Runs, a Run under a cancelled context, or an extra Reset) x %d constructor configurations (Params/Env/Dir/StdIO/Interactive/ExecHandlers/OpenHandler); EVERY history of length <= %d is executed, then Reset, then each of %d observer programs P, compared (stdout, stderr, returned error, sorted Runner.Vars) with P on a brand-new Runner with the same options (histories of length <= %d: replayed on a new Runner for each P separately; longer ones: the observers run in sequence on the one Runner with a Reset before each, rotated start); for lengths %d..%d, the one-operation extensions of the smallest history of each DISTINCT canonical state of the previous level are all executed, and Reset+observers are run from every extension that reaches a canonical state not seen before (state = reflection dump of all non-constructor Runner fields before Reset), for the first %d configuration(s). clause 2: %s; each parsed once, run (a) whole file twice (programs whose two whole-file runs differ are skipped as nondeterministic), (b) Stmt by Stmt on one Runner stopping at Exited(): stdout, stderr, last returned error and Runner.Vars must be equal; when an EXIT trap is installed at the end and the shell did not exit, the statement-wise stdout and stderr must be prefixes of the whole-file ones, the status equal, and a Vars difference is accepted only if making the pending trap run on the statement-wise Runner (Run of an empty File) produces the whole-file Vars",
		len(pol), c30NonFileOps(), ncfg, fullDepth, len(obs), replayDepth, fullDepth+1, maxDepth, deepCfgs, incrNote)
	c.Assumptions = []string{
		"the exec handler is a stub (no real processes); files are opened through the default open handler restricted to a private scratch directory",
		"a fresh Runner is built with the same options over the same directory tree; the runner's stdin is a file of identical lines so that bytes consumed by the history do not change what a later read sees",
		"beyond the fully enumerated depth, histories are pruned on the reflection dump of the Runner's private state (expansion config, handlers, Env and background-job records excluded)",
	}

	complete := true
	parts := os.Getenv("VERIF_C30_PARTS") // development aid: "reset" or "incr"
	if parts != "" {
		c.CapNote("VERIF_C30_PARTS=%s: only one clause was run", parts)
	}
	if parts == "incr" {
		maxDepth = -1
	}
	// ---- clause 1: level-synchronous BFS
	frontier := make([][][]int, ncfg)
	for i := range frontier {
		frontier[i] = [][]int{{}}
	}
	mkCases := func(hs [][][]int, chain, keyOnly bool) []c30Case {
		var cases []c30Case
		for cfg := range hs {
			for _, h := range hs[cfg] {
				names := make([]string, len(h))
				for i, p := range h {
					names[i] = pol[p].Name
				}
				cases = append(cases, c30Case{Part: "reset", Cfg: cfg, Hist: h, Chain: chain, KeyOnly: keyOnly, HistNames: names})
			}
		}
		return cases
	}
	runCases := func(cases []c30Case) bool {
		st.mu.Lock()
		st.level = map[string]string{}
		st.mu.Unlock()
		return vc.Run(c, func(emit func(c30Case)) {
			for _, t := range cases {
				emit(t)
			}
		}, run)
	}
	extend := func(h []int) [][]int {
		out := make([][]int, 0, len(pol))
		for p := range pol {
			out = append(out, append(append([]int(nil), h...), p))
		}
		return out
	}
	for depth := 0; depth <= maxDepth && complete; depth++ {
		// every history of the frontier is executed and observed
		cases := mkCases(frontier, depth > replayDepth, false)
		c.Count(fmt.Sprintf("histories_observed_depth%d", depth), len(cases))
		if !runCases(cases) {
			complete = false
			break
		}
		// the histories that reached a state not seen before (in
		// lexicographic order, so the smallest history represents a state)
		newStates := 0
		reps := make([][][]int, ncfg)
		for cfg := 0; cfg < ncfg; cfg++ {
			for _, h := range frontier[cfg] {
				key, have := st.level[c30HistID(cfg, h)]
				if !have {
					continue // the history could not be run (reported as a failure)
				}
				if !st.states[key] {
					st.states[key] = true
					newStates++
					reps[cfg] = append(reps[cfg], h)
				}
			}
		}
		c.Count(fmt.Sprintf("new_states_depth%d", depth), newStates)
		if depth == maxDepth {
			break
		}
		next := make([][][]int, ncfg)
		if depth < fullDepth {
			for cfg := 0; cfg < ncfg; cfg++ {
				for _, h := range frontier[cfg] {
					next[cfg] = append(next[cfg], extend(h)...)
				}
			}
		} else {
			// pruned level: the one-operation extensions of the new states
			// are executed for their state key only; those that reach a new
			// state form the next frontier
			cand := make([][][]int, ncfg)
			for cfg := 0; cfg < deepCfgs && cfg < ncfg; cfg++ {
				for _, h := range reps[cfg] {
					cand[cfg] = append(cand[cfg], extend(h)...)
				}
			}
			keyCases := mkCases(cand, true, true)
			c.Count(fmt.Sprintf("histories_keyed_depth%d", depth+1), len(keyCases))
			if !runCases(keyCases) {
				complete = false
				break
			}
			claimed := map[string]bool{}
			for cfg := range cand {
				for _, h := range cand[cfg] {
					key, have := st.level[c30HistID(cfg, h)]
					if have && !st.states[key] && !claimed[key] {
						claimed[key] = true
						next[cfg] = append(next[cfg], h)
					}
				}
			}
		}
		frontier = next
	}

	// ---- clause 2
	if complete && parts != "reset" {
		ok := vc.Run(c, func(emit func(c30Case)) {
			c30IncrPrograms(c, emit)
		}, run)
		complete = complete && ok
	}

	c.Extra["states"] = len(st.states)
	c.Extra["transitions"] = len(st.trans)
	c.Extra["traces_validated_against_impl"] = st.traces
	c.Extra["operations_executed_on_impl"] = st.steps
	c.Extra["histories_executed"] = st.histRun
	c30Cleanup()
	c.Finish(complete)
}

var _ = time.Second
