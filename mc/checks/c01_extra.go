package checks

import "verif/mc/synt"

// c01Extra are programs added to C01's space on top of the shared corpus and
// grammar: boundary inputs of the printer mechanisms the property anchors
// (Minify short form next to a name continuation, trailing backslashes,
// "( (" / ") )" disambiguation, here-document flushing, redirect placement,
// statement separators in single-line and minified output, statements ending
// in & inside constructs). They are taken in every variant in which they
// parse, with the full configuration set (kind 1).
var c01Extra = []string{
	// ${x} followed by what could continue the name
	"echo ${x}1", "echo ${x}_", "echo ${x}a", "echo \"${x}1\"", "echo \"${x}_y\"", "echo ${x}é", "echo ${x}-", "echo ${x}[1]", "echo ${x}$y", "echo ${x}${y}",
	"echo ${1}0", "echo ${10}0", "echo ${x}{a,b}", "echo ${x}'a'", "echo ${x}\"a\"", "echo ${x}\\a", "echo a${x}b1", "a=${x}1", "echo ${x}1 ${y}", "echo <<<${x}1",
	"echo ${_}1", "echo ${x1}2", "echo ${#}1", "echo ${?}a", "echo ${@}a", "echo ${$}1", "echo ${!}a", "echo ${-}a", "echo ${*}_",
	"echo ${#}-", "echo ${#}?", "echo ${#}@", "echo ${#}*", "echo ${#}#", "echo ${#}!", "echo ${#}\"a\"", "echo ${#}$x", "echo ${#}${x}", "echo \"${#}a\"", "echo ${x}:h", "echo ${x}(a)", "echo ${x}#", "echo ${x}:-a", "echo \"${x}[1]\"", "echo ${x}[", "echo ${+}x", "echo ${?}[1]",
	// trailing backslashes (only possible at the end of the input)
	"echo \\", "echo a\\", "echo a\\\\", "echo a\\\\\\", "a\\", "\\",
	// parentheses that must stay apart
	"( (a) )", "( (a); b )", "( a; (b) )", "( (a) | (b) )", "( ((1)) )", "( ((1)); a )", "echo $( (a) )", "echo $( (a); (b) )", "echo $( ((1)) )", "(\n(a)\n)", "( (a) ) >f", "( (a) & )", "( ! (a) )",
	"echo \"$( (a) )\"", "a=$( (a) )", "echo <( (a) )", "( (a) && (b) )", "( ( (a) ) )", "f() ( (a) )", "echo `(a)`", "echo ` (a) `",
	// here-document flushing
	"a <<E && b <<F\n1\nE\n2\nF\n", "{ a <<E; }\nx\nE\n", "{ a <<E\nx\nE\n}", "a <<E | b <<F\n1\nE\n2\nF\n", "echo $(a <<E\nx\nE\n)", "echo $(a <<E\nx\nE\n) b", "if a <<E; then b; fi\nx\nE\n", "a <<E &\nx\nE\n", "a <<E; b\nx\nE\n",
	"a <<E b <<-F\n1\nE\n\t2\n\tF\n", "while a <<E; do b; done\nx\nE\n", "( a <<E )\nx\nE\n", "( a <<E\nx\nE\n)", "a <<E\n$(b)\nE\n", "a <<E\n`b`\nE\n", "a <<'E'\n$(b <<F\nF\n)\nE\n", "a <<E # c\nx\nE\n", "f() { a <<E; }\nx\nE\n",
	"case x in a) b <<E ;; esac\nx\nE\n", "a <<E\nE\n", "a <<-E\n\tx\n\tE\n", "a <<-E\n\t$(b)\n\tE\n", "a <<E\nx\\\ny\nE\n", "echo \"$(a <<E\nx\nE\n)\"", "a && b <<E\nx\nE\n", "! a <<E\nx\nE\n", "a <<E >f\nx\nE\n", ">f a <<E b\nx\nE\n",
	// redirect placement
	">f a b", "a >f b 2>g c", ">f", "a=1 >f b", ">f a=1 b", "a >f", ">f >g a", "a b >f c", "2>&1 a", "a <f >g b", "{fd}>f a",
	// separators
	"a; b; c", "a &\nb", "{ a & b; }", "a & b & c", "a & b; c", "{ a; b & }", "if a; then b; c; fi", "a; { b; }; c", "a; (b); c", "let a & b", "let a | b", "let a; b", "let a && b", "(let a) & b",
	"case x in a) b ;; esac; c", "case x in a) ;; esac; c", "case x in a) b & ;; esac", "case x in a) b & c ;; esac", "while a; do b; done; c", "for i in a; do b; done; c", "f() { a; }; b", "[[ a ]]; b", "((1)); b", "a | b; c", "a && b; c", "! a; b",
	// a statement ending in & closes a construct
	"{ { a & }; a; }", "{ { a & }; }", "for i in $(a &) b; do a; done", "if { a & }; then a; fi", "( ( a & ); a )", "echo $(a &); b", "echo `a &`; b", "a() ( b & ); c", "while a; do b & done; c", "if a; then b & fi; c", "echo <(a &); b", "a=$(b &) c; d",
	"{ a & }; b", "( a & ); b", "{ a & } && b", "{ a & } | b", "{ a & } >f; b", "if a & then b; fi", "while a & do b; done", "echo \"$(a &)\"; b", "a=(b $(c &)); d", "case x in a) { b & } ;; esac; c", "{ { a & } & }; b",
}

// c01Extras emits the extra programs.
func c01Extras(emit func(synCase)) {
	for _, src := range append(append([]string{}, c01Extra...), synPairSignAtoms()...) {
		for _, v := range synt.Variants {
			emit(synCase{Src: src, Variant: v.Name, Kind: 1})
		}
	}
}
