package checks

import (
	"sort"
	"strconv"
	"strings"
)

// Reference model for C33: one shell variable `a` as bash 5.2 treats it when
// only indexed-array operations are applied. The array proper is a Go map
// from index to value; the variable may also be unset, declared as an array
// without a value (`declare -a a`), or a scalar (which bash lets every array
// operation see as a one-element array with index 0).
//
// The model is itself validated against bash 5.2 on the explored histories,
// see c33.go.

const (
	c33Unset    = 0
	c33Declared = 1 // declare -a a, no value yet
	c33Scalar   = 2
	c33Array    = 3
)

type c33State struct {
	Kind int
	S    string
	M    map[int]string
	// NotSet is used only by the defect models of c33_class.go: the array
	// exists but is not marked as set.
	NotSet bool
}

func (s c33State) clone() c33State {
	t := c33State{Kind: s.Kind, S: s.S, NotSet: s.NotSet}
	if s.M != nil {
		t.M = make(map[int]string, len(s.M))
		for k, v := range s.M {
			t.M[k] = v
		}
	}
	return t
}

// view returns the variable as array operations see it: a scalar is the
// array {0: value}; an unset or merely declared variable has no elements.
func (s c33State) view() map[int]string {
	switch s.Kind {
	case c33Scalar:
		return map[int]string{0: s.S}
	case c33Array:
		return s.M
	}
	return map[int]string{}
}

func c33Keys(m map[int]string) []int {
	ks := make([]int, 0, len(m))
	for k := range m {
		ks = append(ks, k)
	}
	sort.Ints(ks)
	return ks
}

func c33Max(m map[int]string) int {
	mx := -1
	for k := range m {
		if k > mx {
			mx = k
		}
	}
	return mx
}

// c33Op is one operation of the alphabet.
type c33Op struct {
	Text string
	// Kind of operation and its parameters for the model.
	K   string // see apply
	I   int    // index for element operations
	V   string // value
	Els []c33Elem
}

type c33Elem struct {
	HasIdx bool
	Idx    int
	Val    string
}

var c33Ops = []c33Op{
	{Text: `a=()`, K: "arr"},
	{Text: `a=(x y)`, K: "arr", Els: []c33Elem{{Val: "x"}, {Val: "y"}}},
	{Text: `a=([3]=p q)`, K: "arr", Els: []c33Elem{{HasIdx: true, Idx: 3, Val: "p"}, {Val: "q"}}},
	{Text: `a[0]=c`, K: "set", I: 0, V: "c"},
	{Text: `a[1]=d`, K: "set", I: 1, V: "d"},
	{Text: `a[3]=e`, K: "set", I: 3, V: "e"},
	{Text: `a[-1]=f`, K: "set", I: -1, V: "f"},
	{Text: `a[6]=g`, K: "set", I: 6, V: "g"},
	{Text: `a+=(v)`, K: "apparr", Els: []c33Elem{{Val: "v"}}},
	{Text: `a+=(v w)`, K: "apparr", Els: []c33Elem{{Val: "v"}, {Val: "w"}}},
	{Text: `a+=([1]=z)`, K: "apparr", Els: []c33Elem{{HasIdx: true, Idx: 1, Val: "z"}}},
	{Text: `a+=V`, K: "appstr", V: "V"},
	{Text: `a[0]+=A`, K: "appset", I: 0, V: "A"},
	{Text: `a[2]+=B`, K: "appset", I: 2, V: "B"},
	{Text: `a[-1]+=C`, K: "appset", I: -1, V: "C"},
	{Text: `unset 'a[0]'`, K: "unsetelem", I: 0},
	{Text: `unset 'a[1]'`, K: "unsetelem", I: 1},
	{Text: `unset 'a[-1]'`, K: "unsetelem", I: -1},
	{Text: `unset 'a[5]'`, K: "unsetelem", I: 5},
	{Text: `unset a`, K: "unset"},
	{Text: `a=s`, K: "str", V: "s"},
	{Text: `a=("${a[@]:1:2}")`, K: "slice", I: 1, V: "2"},
	{Text: `b=("${a[@]}"); a=("${b[@]}")`, K: "copy"},
	{Text: `declare -a a`, K: "declare"},
	{Text: `read -a a <<<'r s'`, K: "arr", Els: []c33Elem{{Val: "r"}, {Val: "s"}}},
	{Text: `mapfile -t a <<<$'m\nn'`, K: "arr", Els: []c33Elem{{Val: "m"}, {Val: "n"}}},
}

func c33OpByText(t string) (c33Op, bool) {
	for _, o := range c33Ops {
		if o.Text == t {
			return o, true
		}
	}
	return c33Op{}, false
}

// resolve turns a possibly negative subscript into an index: negative
// subscripts count from one past the maximum index. ok is false for a bad
// subscript.
func c33Resolve(m map[int]string, i int) (int, bool) {
	if i >= 0 {
		return i, true
	}
	i += c33Max(m) + 1
	return i, i >= 0
}

// apply performs op on s and returns the new state and whether the shell
// reports failure (non-zero status) for the command.
func (s c33State) apply(op c33Op) (c33State, bool) {
	t := s.clone()
	setElems := func(base map[int]string, els []c33Elem) map[int]string {
		next := c33Max(base) + 1
		for _, e := range els {
			if e.HasIdx {
				next = e.Idx
			}
			base[next] = e.Val
			next++
		}
		return base
	}
	switch op.K {
	case "arr":
		return c33State{Kind: c33Array, M: setElems(map[int]string{}, op.Els)}, false
	case "apparr":
		base := map[int]string{}
		for k, v := range s.view() {
			base[k] = v
		}
		return c33State{Kind: c33Array, M: setElems(base, op.Els)}, false
	case "set", "appset":
		base := map[int]string{}
		for k, v := range s.view() {
			base[k] = v
		}
		k, ok := c33Resolve(base, op.I)
		if !ok {
			return t, true
		}
		if op.K == "appset" {
			base[k] += op.V
		} else {
			base[k] = op.V
		}
		return c33State{Kind: c33Array, M: base}, false
	case "appstr":
		switch s.Kind {
		case c33Unset:
			return c33State{Kind: c33Scalar, S: op.V}, false
		case c33Scalar:
			t.S += op.V
			return t, false
		case c33Declared:
			return c33State{Kind: c33Array, M: map[int]string{0: op.V}}, false
		}
		t.M[0] += op.V
		return t, false
	case "str":
		switch s.Kind {
		case c33Unset, c33Scalar:
			return c33State{Kind: c33Scalar, S: op.V}, false
		case c33Declared:
			return c33State{Kind: c33Array, M: map[int]string{0: op.V}}, false
		}
		t.M[0] = op.V
		return t, false
	case "unsetelem":
		switch s.Kind {
		case c33Unset:
			return t, false
		case c33Declared:
			if op.I < 0 {
				return t, true
			}
			return t, false
		case c33Scalar:
			if op.I == 0 {
				return c33State{Kind: c33Unset}, false
			}
			return t, true
		}
		k, ok := c33Resolve(t.M, op.I)
		if !ok {
			return t, true
		}
		delete(t.M, k)
		return t, false
	case "unset":
		return c33State{Kind: c33Unset}, false
	case "slice":
		l, _ := strconv.Atoi(op.V)
		vals, _ := s.sliceVals(op.I, l, true)
		m := map[int]string{}
		for i, v := range vals {
			m[i] = v
		}
		return c33State{Kind: c33Array, M: m}, false
	case "copy":
		v := s.view()
		m := map[int]string{}
		for i, k := range c33Keys(v) {
			m[i] = v[k]
		}
		return c33State{Kind: c33Array, M: m}, false
	case "declare":
		switch s.Kind {
		case c33Unset:
			return c33State{Kind: c33Declared}, false
		case c33Scalar:
			return c33State{Kind: c33Array, M: map[int]string{0: s.S}}, false
		}
		return t, false
	}
	panic("c33 model: unknown op kind " + op.K)
}

// sliceVals is "${a[@]:o:l}" (hasL) or "${a[@]:o}": a negative offset counts
// from one past the maximum index; the result starts at the first element
// whose index is at least the offset and has at most l elements. A negative
// length is an error for arrays unless the offset is out of range.
func (s c33State) sliceVals(o, l int, hasL bool) ([]string, bool) {
	if s.Kind == c33Scalar {
		// a scalar is sliced as a string, giving one field
		n := len(s.S)
		if o < 0 {
			o += n
		}
		if o < 0 || o > n {
			return nil, true
		}
		end := n
		if hasL && l < 0 {
			if end = n + l; end < o {
				return nil, false
			}
		} else if hasL && o+l < n {
			end = o + l
		}
		return []string{s.S[o:end]}, true
	}
	v := s.view()
	n := c33Max(v) + 1
	if o < 0 {
		o += n
	}
	if o < 0 || o >= n {
		return nil, true // offset out of range: nothing, and no complaint about the length
	}
	if hasL && l < 0 {
		return nil, false
	}
	var out []string
	for _, k := range c33Keys(v) {
		if k < o {
			continue
		}
		if hasL && len(out) >= l {
			break
		}
		out = append(out, v[k])
	}
	return out, true
}

// c33Item is one observation made through the shell itself.
type c33Item struct {
	Kind string // all keys count star plain plainlen elem elemlen slice slice1 isset
	Word string // the word observed with `set -- WORD` (or the [[ -v ]] operand)
	I    int
	O, L int
}

var c33Items, c33NegLenItems, c33IssetItems = func() (core, neglen, isset []c33Item) {
	core = []c33Item{
		{Kind: "all", Word: `"${a[@]}"`},
		{Kind: "keys", Word: `"${!a[@]}"`},
		{Kind: "count", Word: `"${#a[@]}"`},
		{Kind: "star", Word: `"${a[*]}"`},
		{Kind: "plain", Word: `"${a}"`},
		{Kind: "plainlen", Word: `"${#a}"`},
	}
	for i := -3; i <= 7; i++ {
		core = append(core, c33Item{Kind: "elem", Word: `"${a[` + strconv.Itoa(i) + `]}"`, I: i})
	}
	for i := -3; i <= 7; i++ {
		core = append(core, c33Item{Kind: "elemlen", Word: `"${#a[` + strconv.Itoa(i) + `]}"`, I: i})
	}
	for o := -2; o <= 3; o++ {
		core = append(core, c33Item{Kind: "slice1", Word: `"${a[@]: ` + strconv.Itoa(o) + `}"`, O: o})
		for l := -2; l <= 3; l++ {
			it := c33Item{Kind: "slice", Word: `"${a[@]: ` + strconv.Itoa(o) + `:` + strconv.Itoa(l) + `}"`, O: o, L: l}
			if l < 0 {
				neglen = append(neglen, it)
			} else {
				core = append(core, it)
			}
		}
	}
	for i := -3; i <= 7; i++ {
		isset = append(isset, c33Item{Kind: "isset", Word: `a[` + strconv.Itoa(i) + `]`, I: i})
	}
	return
}()

// c33ItemsFor returns the observations made in a context: the two families
// in which the interpreter differs from bash for almost every non-empty array
// (negative slice lengths, [[ -v a[i] ]]) are observed in contexts of their
// own so that they do not stop the exploration of everything else.
func c33ItemsFor(ctx string) []c33Item {
	switch ctx {
	case "neglen":
		return c33NegLenItems
	case "isset":
		return c33IssetItems
	case "keys":
		return c33Items[1:2]
	}
	return c33Items
}

const c33Err = "E"

// c33DontCare marks an observation that is not compared.
const c33DontCare = "~"

func c33Fields(fs []string) string {
	var sb strings.Builder
	sb.WriteString(strconv.Itoa(len(fs)))
	for _, f := range fs {
		sb.WriteString("<" + f + ">")
	}
	return sb.String()
}

// observeItem is what the model says the shell shows for one item: "E" when
// a diagnostic is printed, "0"/"1" for [[ -v ]], otherwise the field list.
func (s c33State) observeItem(it c33Item) string {
	v := s.view()
	keys := c33Keys(v)
	isArr := s.Kind == c33Array
	switch it.Kind {
	case "all":
		var fs []string
		for _, k := range keys {
			fs = append(fs, v[k])
		}
		return c33Fields(fs)
	case "keys":
		var fs []string
		for _, k := range keys {
			fs = append(fs, strconv.Itoa(k))
		}
		return c33Fields(fs)
	case "count":
		return c33Fields([]string{strconv.Itoa(len(keys))})
	case "star":
		var fs []string
		for _, k := range keys {
			fs = append(fs, v[k])
		}
		return c33Fields([]string{strings.Join(fs, " ")})
	case "plain":
		return c33Fields([]string{v[0]})
	case "plainlen":
		return c33Fields([]string{strconv.Itoa(len(v[0]))})
	case "elem", "elemlen":
		i := it.I
		if i < 0 {
			if !isArr {
				// a negative subscript on something that is not an indexed
				// array has no meaning as a map lookup (bash itself answers
				// with a mix of diagnostics and zeros): not compared
				return c33DontCare
			}
			var ok bool
			if i, ok = c33Resolve(v, i); !ok {
				return c33Err
			}
		}
		if it.Kind == "elemlen" {
			return c33Fields([]string{strconv.Itoa(len(v[i]))})
		}
		return c33Fields([]string{v[i]})
	case "slice", "slice1":
		vals, ok := s.sliceVals(it.O, it.L, it.Kind == "slice")
		if !ok {
			return c33Err
		}
		return c33Fields(vals)
	case "isset":
		i := it.I
		if i < 0 {
			if !isArr {
				return c33DontCare
			}
			var ok bool
			if i, ok = c33Resolve(v, i); !ok {
				return "1"
			}
		}
		if _, ok := v[i]; ok {
			return "0"
		}
		return "1"
	}
	panic("c33 model: unknown item kind")
}

func (s c33State) observe(items []c33Item, ctx string) []string {
	out := make([]string, len(items))
	for i, it := range items {
		if s.skipItem(it, ctx) {
			out[i] = c33DontCare
			continue
		}
		out[i] = s.observeItem(it)
	}
	return out
}

// skipItem: "${!a[@]}" of an unset variable makes the interpreter exit
// (recorded through the context "keys", which observes nothing else), so in
// the other contexts it is not executed when the model's variable has no
// value, to let the remaining observations be made.
func (s c33State) skipItem(it c33Item, ctx string) bool {
	return it.Kind == "keys" && ctx != "keys" && (s.Kind == c33Unset || s.Kind == c33Declared)
}
