package checks

import (
	"regexp"
	"strings"
	"sync"

	"verif/mc/oracle"
)

// Classification of the divergences C20 finds on the current tree.
//
// A divergence gets a class only if it is *explained* by defects on the list
// below; explained means: there is a chain of at most three "repairs" of the
// input (each takes the one feature a defect is about out of the input without
// changing what bash computes for it) after which the interpreter's
// observation, corrected by the "normalisations" (defects of how an error
// surfaces, not of the arithmetic) and judged by the direct predicates, is
// what bash gave for the ORIGINAL input. A divergence with any other cause
// survives every repair and stays an unclassified violation. The class
// reported is the first defect of the chain.
//
// repairs (input shape):
//
//	value-text-not-evaluated         a variable (e, v) whose value is not a plain number, or a quoted
//	                                 `let` argument: repaired by e=3 / by writing the value in
//	                                 parentheses in place of v / by running (( text )) instead of let 'text'
//	double-sign-read-as-increment    `++`/`--` that neither follows nor precedes a name (bash: two signs):
//	                                 repaired by writing `+ +` / `- -`; for let the text is run in (( ))
//
// direct predicates (shape + direction):
//
//	array-element-assignment-unsupported   text assigns/increments arr[i]; the interpreter reports
//	                                       "unsupported operand"
//	invalid-constant-evaluates-to-0        text has a numeric token bash rejects; bash reports an error, the
//	                                       interpreter none and computes what it computes with 0 in its place
//	increment-of-increment                 ++x++ and the like: an error in both, bash has done the first increment
//	                                       before it; no error at all where the operand is not evaluated (1 || ++x++)
//	negative-exponent-in-unevaluated-operand   1 || 2 ** -1: bash reports the negative exponent although the
//	                                       operand is not evaluated (variables read as 0 there: 1 || x ** (x - 2))
//
// normalisations (how an error surfaces):
//
//	error-leaves-status-0                  $(( )), ${arr[ ]}, for (( )): diagnostic written, command not run, $? is 0
//	negative-subscript-aborts-command      ${arr[E]}, E < -len: bash prints a diagnostic and expands to nothing,
//	                                       the interpreter aborts the command
var (
	c20ArrLvalueRx = regexp.MustCompile(`arr\[[^\]]*\] ?(\+\+|--|(\+|-|\*|/|%|<<|>>|&|\||\^)?=([^=]|$))|(\+\+|--) ?arr\[`)
	c20PrePostRx   = regexp.MustCompile(`(\+\+|--)[a-z]+(\[[0-9]\])?(\+\+|--)`)
	c20TokE        = regexp.MustCompile(`(^|[^a-zA-Z0-9_#@])e($|[^a-zA-Z0-9_\[])`)
	c20TokV        = regexp.MustCompile(`(^|[^a-zA-Z0-9_#@])v($|[^a-zA-Z0-9_\[])`)
	c20NumTokRx    = regexp.MustCompile(`(^|[^a-zA-Z0-9_#@])([0-9][a-zA-Z0-9_#@]*)`)
)

// c20FixIncDec rewrites every `++`/`--` that bash does not read as an
// increment (it neither follows a name nor is followed by one) as two
// separate sign operators, which is how bash evaluates it.
func c20FixIncDec(s string) (string, bool) {
	var sb strings.Builder
	changed := false
	for i := 0; i < len(s); i++ {
		if i+1 < len(s) && (s[i] == '+' || s[i] == '-') && s[i+1] == s[i] {
			// previous token a name?
			j := i
			for j > 0 && s[j-1] == ' ' {
				j--
			}
			prevName := false
			if j > 0 && s[j-1] == ']' {
				prevName = true
			} else {
				k := j
				for k > 0 && (isIdChar(s[k-1]) || s[k-1] == '#' || s[k-1] == '@') {
					k--
				}
				prevName = k < j && isIdStart(s[k])
			}
			n := i + 2
			for n < len(s) && s[n] == ' ' {
				n++
			}
			nextName := n < len(s) && isIdStart(s[n])
			if !prevName && !nextName {
				sb.WriteByte(s[i])
				sb.WriteByte(' ')
				sb.WriteByte(s[i])
				changed = true
				i++
				continue
			}
			sb.WriteByte(s[i])
			sb.WriteByte(s[i])
			i++
			continue
		}
		sb.WriteByte(s[i])
	}
	return sb.String(), changed
}

// c20Fields splits "value|status|x|y|e|u|arr|idx|i|n|errflag".
func c20Fields(r string) []string { return strings.SplitN(r, "|", c20NF) }

// c20InvalidNumTokens returns text with every numeric token bash rejects
// replaced by 0, and whether there was one.
func c20InvalidNumTokens(text string) (string, bool) {
	found := false
	out := c20NumTokRx.ReplaceAllStringFunc(text, func(m string) string {
		sub := c20NumTokRx.FindStringSubmatch(m)
		if c20NumTokValid(sub[2]) {
			return m
		}
		found = true
		return sub[1] + "0"
	})
	return out, found
}

// c20NumTokValid applies bash's rules for integer constants (expr.c strlong)
// to one token.
func c20NumTokValid(tok string) (ok bool) {
	defer func() {
		if r := recover(); r != nil {
			if _, isErr := r.(arRefErr); isErr {
				ok = false
				return
			}
			ok = true // too large: not this class's business
		}
	}()
	(&arRefParser{st: newArRefState()}).strlong(tok)
	return true
}

var c20RejectCache sync.Map

// c20BashRejectsValue asks bash (once per value) whether $(( v )) with v
// holding the text is an error in the initial state.
func c20BashRejectsValue(v string) bool {
	if r, ok := c20RejectCache.Load(v); ok {
		return r.(bool)
	}
	out, _, err := oracle.ShellFile("bash", c20SetupE+"; v="+oracle.ShQuote(v)+"\n: $(( v )) 2>/dev/null\necho st=$?\n", "")
	if err != nil {
		panic(err)
	}
	rej := strings.TrimSpace(string(out)) == "st=1"
	c20RejectCache.Store(v, rej)
	return rej
}

// c20State is an input as the repairs transform it.
type c20State struct {
	ctx, text string
	e3        bool // e=3 instead of e='1+2'
	t         arCase
	vInlined  bool
}

func (s c20State) run() arShRun {
	setup := c20SetupE
	if s.e3 {
		setup = c20Setup3
	}
	if s.t.HasV && !s.vInlined {
		setup = c20Setup(setup, s.t)
	}
	return c20RunSh(s.ctx, setup, s.text)
}

// c20Classify returns the class of a divergence ("" = unexplained) and a
// note for the message.
func c20Classify(t arCase, r arShRun, bf []string) (string, string) {
	chain, ok := c20Explain(c20State{ctx: t.Ctx, text: c20Text(t), t: t}, &r, bf, 0)
	if !ok || len(chain) == 0 {
		return "", ""
	}
	return chain[0], " [explained by: " + strings.Join(chain, " + ") + "]"
}

// c20Explain: see the comment at the top. r may be given for the initial
// state (already run).
func c20Explain(s c20State, r *arShRun, bf []string, depth int) ([]string, bool) {
	if r == nil {
		rr := s.run()
		r = &rr
	}
	bashErr := bf[10] == "E"
	switch r.Kind {
	case "parse":
		if bashErr {
			return nil, true // an error in both (side effects before a syntax error are not compared)
		}
	case "":
		sf := c20Fields(r.R)
		if len(sf) != c20NF {
			return nil, false
		}
		shErr := sf[10] == "E"
		// the repaired e=3 prints as 3 where bash still has the text
		if s.e3 && sf[4] == "3" && bf[4] == "1+2" {
			sf[4] = "1+2"
		}
		bashR := strings.Join(bf, "|")
		if strings.Join(sf, "|") == bashR {
			return nil, true
		}
		// normalisation: the error is reported, the command is not run, but $? is 0
		var chain []string
		if shErr && sf[1] == "0" && (s.ctx == "exp" || s.ctx == "sub" || s.ctx == "for" || s.ctx == "forc") {
			sf[1] = "1"
			chain = []string{"error-leaves-status-0"}
			if strings.Join(sf, "|") == bashR {
				return chain, true
			}
		}
		varsEq := strings.Join(sf[2:10], "|") == strings.Join(bf[2:10], "|")
		unsupported := strings.Contains(r.Stderr, "unsupported operand for arithmetic operator")
		switch {
		case unsupported && c20ArrLvalueRx.MatchString(s.text):
			// nothing after the refused assignment is comparable
			return []string{"array-element-assignment-unsupported"}, true
		case unsupported && bashErr && c20PrePostRx.MatchString(compactArith(s.text)) && sf[0] == bf[0] && sf[1] == bf[1]:
			// an error in both, but bash has done the first increment
			return append([]string{"increment-of-increment"}, chain...), true
		case (s.ctx == "exp" || s.ctx == "sub") && strings.Contains(r.Stderr, "negative array index") && sf[0] == "ERR" &&
			bashErr && bf[0] != "ERR" && bf[1] == "0" && varsEq:
			// bash: diagnostic, the element reads as empty / 0, the command still runs
			return []string{"negative-subscript-aborts-command"}, true
		}
		if bashErr && !shErr {
			// errors bash reports although the operand is not evaluated
			st := newArRefState()
			if s.e3 {
				st.vars["e"] = "3"
			}
			if s.t.HasV && !s.vInlined {
				st.vars["v"] = s.t.V
			}
			if s.ctx == "for" || s.ctx == "forc" {
				st.vars["i"] = "0"
			}
			if _, outc, why := arRefEval(st, s.text); outc == arRefError && strings.HasSuffix(why, " [not evaluated]") {
				switch {
				case strings.HasPrefix(why, "exponent less than 0") && strings.Contains(s.text, "**"):
					return []string{"negative-exponent-in-unevaluated-operand"}, true
				case strings.HasPrefix(why, "assignment requires lvalue") && c20PrePostRx.MatchString(compactArith(s.text)):
					return []string{"increment-of-increment"}, true
				}
			}
		}
		if zeroed, has := c20InvalidNumTokens(s.text); has && bashErr && !shErr {
			s2 := s
			s2.text = zeroed
			if r2 := s2.run(); r2.Kind == "" && r2.R == r.R {
				return []string{"invalid-constant-evaluates-to-0"}, true
			}
		}
		if s.t.HasV && !s.vInlined && c20TokV.MatchString(s.text) && bashErr && !shErr && c20BashRejectsValue(s.t.V) {
			// the value is not an expression bash accepts (`$x`, or v naming
			// itself): the interpreter reads it as 0 without a diagnostic
			s2 := s
			s2.vInlined = true // = v unset
			if r2 := s2.run(); r2.Kind == "" && r2.R == r.R {
				return []string{"value-text-not-evaluated"}, true
			}
		}
	default:
		return nil, false
	}
	if depth >= 3 {
		return nil, false
	}
	// repairs
	type rep struct {
		class string
		s     c20State
	}
	var reps []rep
	if !s.e3 && c20TokE.MatchString(s.text) {
		s2 := s
		s2.e3 = true
		reps = append(reps, rep{"value-text-not-evaluated", s2})
	}
	if s.t.HasV && !s.vInlined && c20TokV.MatchString(s.text) {
		s2 := s
		s2.vInlined = true
		in := "(" + s.t.V + ")"
		if strings.TrimSpace(s.t.V) == "" {
			in = "0"
		}
		s2.text = c20TokV.ReplaceAllString(s.text, "${1}"+strings.ReplaceAll(in, "$", "$$")+"${2}")
		reps = append(reps, rep{"value-text-not-evaluated", s2})
	}
	if s.ctx == "letq" {
		s2 := s
		s2.ctx = "cmd"
		reps = append(reps, rep{"value-text-not-evaluated", s2})
	}
	if fixed, has := c20FixIncDec(s.text); has {
		s2 := s
		s2.text = fixed
		if s2.ctx == "let" {
			s2.ctx = "cmd" // blanks cannot be kept in an unquoted let word
		}
		reps = append(reps, rep{"double-sign-read-as-increment", s2})
	}
	for _, rp := range reps {
		if chain, ok := c20Explain(rp.s, nil, bf, depth+1); ok {
			return append([]string{rp.class}, chain...), true
		}
	}
	return nil, false
}
