package checks

import (
	"regexp"
	"strings"
)

// Classification of the divergences C20 finds on the current tree. Every
// class has a predicate over the case text and the two observed behaviours;
// anything that matches no predicate stays an unclassified violation.
//
// Two of the predicates are "repair" predicates: the case is re-run in the
// interpreter with the one feature the class is about taken out of the input
// (e=3 instead of e='1+2'; `++`/`--` in front of a non-name written as two
// signs) and the class applies only if the interpreter then agrees with what
// bash gave for the ORIGINAL text. A divergence with any other cause survives
// the repair and is reported.

var (
	c20ArrLvalueRx = regexp.MustCompile(`arr\[[0-9]\] ?(\+\+|--|(\+|-|\*|/|%|<<|>>|&|\||\^)?=([^=]|$))|(\+\+|--) ?arr\[`)
	c20PrePostRx   = regexp.MustCompile(`(\+\+|--)[a-z]+(\[[0-9]\])?(\+\+|--)`)
	c20TokE        = regexp.MustCompile(`(^|[^a-zA-Z0-9_#@])e($|[^a-zA-Z0-9_\[])`)
	c20PlainRx     = regexp.MustCompile(`^[a-zA-Z0-9_#@]+$`)
	c20Tok08       = regexp.MustCompile(`(^|[^a-zA-Z0-9_#@])08($|[^a-zA-Z0-9_#@])`)
)

func c20PanicClass(t arCase, info string) string {
	text := c20Text(t)
	switch {
	case strings.Contains(info, "variable name must not be empty") && c20ArrLvalueRx.MatchString(text):
		// expand.Arithm takes the assignment target's name with Word.Lit(),
		// which is "" for arr[i], and asks the environment for variable ""
		return "panic-array-element-assigned-or-incremented"
	case strings.Contains(info, "interface conversion: syntax.ArithmExpr is *syntax.UnaryArithm") && c20PrePostRx.MatchString(compactArith(text)):
		// ++x++ parses as Inc(PostInc(x)); Arithm asserts the operand is a Word
		return "panic-preincrement-of-postincrement"
	}
	return ""
}

// c20FixIncDec rewrites every `++`/`--` that bash does not read as an
// increment (it neither follows a name nor is followed by one) as two
// separate sign operators, which is how bash evaluates it.
func c20FixIncDec(s string) (string, bool) {
	var sb strings.Builder
	changed := false
	for i := 0; i < len(s); i++ {
		if i+1 < len(s) && (s[i] == '+' || s[i] == '-') && s[i+1] == s[i] {
			// previous token a name?
			j := i
			for j > 0 && s[j-1] == ' ' {
				j--
			}
			prevName := false
			if j > 0 && s[j-1] == ']' {
				prevName = true
			} else {
				k := j
				for k > 0 && (isIdChar(s[k-1]) || s[k-1] == '#' || s[k-1] == '@') {
					k--
				}
				prevName = k < j && isIdStart(s[k])
			}
			n := i + 2
			for n < len(s) && s[n] == ' ' {
				n++
			}
			nextName := n < len(s) && isIdStart(s[n])
			if !prevName && !nextName {
				sb.WriteByte(s[i])
				sb.WriteByte(' ')
				sb.WriteByte(s[i])
				changed = true
				i++
				continue
			}
			sb.WriteByte(s[i])
			sb.WriteByte(s[i])
			i++
			continue
		}
		sb.WriteByte(s[i])
	}
	return sb.String(), changed
}

// c20Fields splits "value|status|x|y|e|u|arr|idx|i|n".
func c20Fields(r string) []string { return strings.SplitN(r, "|", 10) }

func c20VarsOf(f []string) string { return strings.Join(f[2:], "|") }

// c20Errored reports whether the interpreter run ended in a reported
// arithmetic error: no value for exp/sub, a diagnostic on stderr otherwise.
func c20Errored(ctx string, f []string, stderr string) bool {
	if ctx == "exp" || ctx == "sub" {
		return f[0] == "ERR"
	}
	return stderr != ""
}

func c20Class(t arCase, r arShRun, bash string) string {
	text := c20Text(t)
	bf := c20Fields(bash)
	if len(bf) != 10 {
		return ""
	}
	bashErr := bf[1] == "1" && (bf[0] == "ERR" || t.Ctx != "exp" && t.Ctx != "sub")
	if r.Kind == "" {
		sf := c20Fields(r.R)
		if len(sf) != 10 {
			return ""
		}
		shErr := c20Errored(t.Ctx, sf, r.Stderr)
		switch {
		case shErr && sf[0] == bf[0] && c20VarsOf(sf) == c20VarsOf(bf) && sf[1] == "0" && bf[1] == "1" && (t.Ctx == "exp" || t.Ctx == "sub" || t.Ctx == "for"):
			// the error is reported and the command is not run, but $? is 0
			return "error-in-expansion-or-loop-leaves-status-0"
		case c20Tok08.MatchString(text) && !shErr && bashErr:
			return "invalid-octal-08-accepted"
		case t.Ctx == "letq" && !c20PlainRx.MatchString(text) && c20VarsOf(sf) == c20Init:
			// a quoted let argument is not parsed as arithmetic at all: it is
			// read like a number (atoi of the whole text), nothing is assigned
			return "let-quoted-argument-not-evaluated"
		case t.Ctx == "sub" && strings.Contains(r.Stderr, "negative array index") && sf[0] == "ERR" && bf[0] == "<>" && bf[1] == "0" && c20VarsOf(sf) == c20VarsOf(bf):
			// bash: diagnostic, empty expansion, the command still runs
			return "negative-subscript-out-of-range-aborts-command"
		}
	}
	// repair predicates
	hasE := c20TokE.MatchString(text)
	fixed, hasInc := c20FixIncDec(text)
	type cand struct {
		setup, text, class string
		eRepaired          bool
	}
	var cands []cand
	if hasE {
		cands = append(cands, cand{c20Setup3, text, "variable-holding-expression-text-not-evaluated", true})
	}
	if hasInc {
		cands = append(cands, cand{c20SetupE, fixed, "double-sign-read-as-increment-of-non-name", false})
	}
	if hasE && hasInc {
		cands = append(cands, cand{c20Setup3, fixed, "variable-holding-expression-text-not-evaluated", true})
	}
	ctx := t.Ctx
	if r.Kind == "parse" {
		ctx = "exp" // bash was asked for $(( text )) whatever the context
	}
	for _, cd := range cands {
		r2 := c20RunSh(ctx, cd.setup, cd.text)
		if r2.Kind != "" {
			continue
		}
		f2 := c20Fields(r2.R)
		if len(f2) != 10 {
			continue
		}
		// the known status defect: an error the interpreter reports leaves $? = 0
		if c20Errored(ctx, f2, r2.Stderr) && f2[1] == "0" && (ctx == "exp" || ctx == "sub" || ctx == "for") {
			f2[1] = "1"
		}
		// with e=3 an untouched e prints as 3 where bash still has the text
		if cd.eRepaired && f2[4] == "3" && bf[4] == "1+2" {
			f2[4] = "1+2"
		}
		if strings.Join(f2, "|") == bash {
			return cd.class
		}
	}
	return ""
}
