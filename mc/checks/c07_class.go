package checks

import (
	"reflect"
	"regexp"
	"strings"

	"mvdan.cc/sh/v3/syntax"

	"verif/mc/synt"
)

var c07ZshRange = regexp.MustCompile(`<[0-9]*-[0-9]*>`)

// c07CutInside reports whether some read of either parse ended inside one of
// the [lo,hi] offset windows computed from the regexp matches: lo = start+lo0,
// hi = end+hi0 (start/end of the match, end exclusive).
func c07CutInside(re *regexp.Regexp, full string, lo0, hi0 int, results ...*c07Result) bool {
	for _, m := range re.FindAllStringIndex(full, -1) {
		lo, hi := m[0]+lo0, m[1]+hi0
		for _, r := range results {
			for _, q := range r.cuts {
				if lo <= q && q <= hi {
					return true
				}
			}
		}
	}
	return false
}

// c07Class names the narrow family a divergence belongs to ("" = none).
// full is the complete input (padding included), s the schedule, kind the
// direction of the difference (pos, tree, ok->err, err->ok, err->err, panic).
func c07Class(t c07Case, full string, s *c07Sched, kind string, ref, got *c07Result) string {
	switch {
	case kind == "pos-end":
		// c07Diff established c07OnlyEndOffset: the parser saw io.EOF before it
		// had consumed the last buffered bytes (io.EOF delivered together with
		// data, or found while peeking ahead), and every position at the very
		// end of the input has offset len-1 instead of len
		return "end-offset-when-eof-seen-early"
	case t.Variant == "zsh" && kind != "panic" && c07CutInside(c07ZshRange, full, 2, -1, ref, got):
		// a zsh numeric range glob <N-M> whose bytes after "<" do not arrive
		// in one read: zshNumRange looks only at the bytes already buffered
		return "zsh-numrange-split"
	case t.Variant == "zsh" && kind != "panic" && c07PairSplit(full, ref, got):
		// a doubled zsh expansion flag (${==a}, ${~~a}, ${^^a}) whose second
		// rune arrives alone in a read: peekTwo refills only once and then
		// reports "no second byte"
		return "zsh-doubled-flag-split"
	case kind != "panic" && kind != "pos" && c07BquoteRunSplit(full, ref, got):
		// inside backquotes a read ends between a backslash that directly
		// follows another backslash and the $ ` \ " it escapes: rune() skips
		// peek() when the previous rune was a backslash and then looks at the
		// buffer directly, finds it exhausted and keeps the backslash
		return "bquote-escape-split-after-backslash-pair"
	}
	return ""
}

// c07BquoteRunSplit: a read of either parse ends at q, 0<q<len, where
// full[q-2:q] is two backslashes, full[q] is a byte that backquotes escape
// ($ ` \, or "), and a backquote occurs before the run.
func c07BquoteRunSplit(full string, results ...*c07Result) bool {
	for _, r := range results {
		for _, q := range r.cuts {
			if q < 3 || q >= len(full) || full[q-1] != '\\' || full[q-2] != '\\' {
				continue
			}
			switch full[q] {
			case '$', '`', '\\', '"':
			default:
				continue
			}
			if strings.IndexByte(full[:q-2], '`') >= 0 {
				return true
			}
		}
	}
	return false
}

var c07ZshPair = regexp.MustCompile(`==|~~|\^\^`)

// c07PairSplit: some doubled flag at [i,i+2) has reads ending both at i+1
// and at i+2 in one of the two parses.
func c07PairSplit(full string, results ...*c07Result) bool {
	for i := 0; i+1 < len(full); i++ {
		if !c07ZshPair.MatchString(full[i : i+2]) {
			continue
		}
		for _, r := range results {
			a, b := false, false
			for _, q := range r.cuts {
				a = a || q == i+1
				b = b || q == i+2
			}
			if a && b {
				return true
			}
		}
	}
	return false
}

// c07OnlyEndOffset: the two trees become equal once every position of one of
// them whose offset is len(full) is given offset len(full)-1 (that is, one of
// the parses reports the end of the input one byte early; nothing else
// differs). The second result tells which parse is short: "got" or "ref".
func c07OnlyEndOffset(full string, s *c07Sched, ref, got *c07Result) (bool, string) {
	if ref.f == nil || got.f == nil {
		return false, ""
	}
	if ref.adj == nil {
		// a private copy of the reference tree to adjust
		again := c07Parse(nil, full, ref.lang, nil)
		if again.f == nil {
			return false, ""
		}
		c07AdjustEnd(reflect.ValueOf(again.f), uint(len(full)))
		ref.adj = again.f
	}
	if reflect.DeepEqual(ref.adj, got.f) {
		return true, "got"
	}
	again := c07Parse(nil, full, got.lang, s)
	if again.f != nil {
		c07AdjustEnd(reflect.ValueOf(again.f), uint(len(full)))
		if reflect.DeepEqual(again.f, ref.f) {
			return true, "ref"
		}
	}
	if ref.adjDump == "" {
		ref.adjDump = synt.Dump(ref.adj, c07DumpOpts)
	}
	if ref.adjDump == got.getDump() {
		return true, "got"
	}
	return false, ""
}

var c07PosType = reflect.TypeOf(syntax.Pos{})

func c07AdjustEnd(v reflect.Value, n uint) {
	switch v.Kind() {
	case reflect.Interface, reflect.Pointer:
		if !v.IsNil() {
			c07AdjustEnd(v.Elem(), n)
		}
	case reflect.Slice:
		for i := 0; i < v.Len(); i++ {
			c07AdjustEnd(v.Index(i), n)
		}
	case reflect.Struct:
		if v.Type() == c07PosType {
			if p := v.Interface().(syntax.Pos); v.CanSet() && p.IsValid() && p.Offset() == n {
				v.Set(reflect.ValueOf(syntax.NewPos(n-1, p.Line(), p.Col())))
			}
			return
		}
		for i := 0; i < v.NumField(); i++ {
			if v.Type().Field(i).IsExported() {
				c07AdjustEnd(v.Field(i), n)
			}
		}
	}
}
