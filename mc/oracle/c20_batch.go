package oracle

import (
	"fmt"
	"strconv"
	"strings"
)

// BashTopBatch is a variant of BashEvalBatch for cases whose Code can make
// bash "jump to top level" (e.g. an arithmetic error in an array subscript,
// which unwinds every enclosing eval and function call and discards the whole
// top-level command). Each case is therefore written as three separate
// top-level commands:
//
//	__rst                       (reset)
//	eval CODE 2>/dev/null       (may be discarded as a whole by bash)
//	__st=$?; POST; compare R with Want
//
// post is shell text run after every case with the status of CODE in __st; it
// must set R. Want is compared with R as is (no "status:" prefix is added).
// Only differing cases are returned. A case that kills the shell makes the
// END marker go missing, which is reported as an error.
func BashTopBatch(prelude, reset, post string, cases []EvalCase, dir string) ([]Diff, error) {
	var sb strings.Builder
	sb.WriteString(prelude)
	sb.WriteString("\n__rst() { " + orColon(reset) + "; }\n")
	sb.WriteString("__post() { " + orColon(post) + "; }\n")
	for i, cs := range cases {
		fmt.Fprintf(&sb, "R=; __rst\neval %s 2>/dev/null\n__st=$?; __post; [[ \"$R\" == %s ]] || printf 'D %%s %%q\\n' %d \"$R\"\n", ShQuote(cs.Code), ShQuote(cs.Want), i)
	}
	sb.WriteString("echo END\n")
	out, _, err := ShellFile("bash", sb.String(), dir)
	if err != nil {
		return nil, err
	}
	lines := strings.Split(strings.TrimSuffix(string(out), "\n"), "\n")
	if len(lines) == 0 || lines[len(lines)-1] != "END" {
		return nil, fmt.Errorf("bash batch did not reach END (last line %q)", lines[len(lines)-1])
	}
	var diffs []Diff
	for _, ln := range lines[:len(lines)-1] {
		f := strings.SplitN(ln, " ", 3)
		if len(f) != 3 || f[0] != "D" {
			return nil, fmt.Errorf("unexpected bash output %q", ln)
		}
		idx, err := strconv.Atoi(f[1])
		if err != nil {
			return nil, fmt.Errorf("unexpected bash output %q", ln)
		}
		got, err := UnquoteBashQ(f[2])
		if err != nil {
			return nil, fmt.Errorf("cannot unquote %q: %v", f[2], err)
		}
		diffs = append(diffs, Diff{idx, got})
	}
	return diffs, nil
}
