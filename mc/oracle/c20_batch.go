package oracle

import (
	"fmt"
	"os"
	"strconv"
	"strings"
)

// BashTopBatch is a variant of BashEvalBatch for cases whose Code can make
// bash "jump to top level" (e.g. an arithmetic error in an array subscript or
// in $(( )), which unwinds every enclosing eval and function call and discards
// the whole top-level command). Each case is therefore written as three
// separate top-level commands:
//
//	__rst                       (reset)
//	eval CODE 2>"$__F"          (may be discarded as a whole by bash)
//	__st=$?; POST; compare R with Want
//
// post is shell text run after every case with the status of CODE in __st and
// with __e set to "E" when CODE wrote anything to standard error (a
// diagnostic: this is how an arithmetic error in `(( ))`/`let`, which has the
// same status 1 as a zero value, is told from a value) and to "-" otherwise;
// it must set R. Want is compared with R as is (no "status:" prefix is added).
// Only differing cases are returned. A case that kills the shell makes the
// END marker go missing, which is reported as an error.
func BashTopBatch(prelude, reset, post string, cases []EvalCase, dir string) ([]Diff, error) {
	ef, err := os.CreateTemp("", "vstderr-*")
	if err != nil {
		return nil, err
	}
	ef.Close()
	defer os.Remove(ef.Name())
	var sb strings.Builder
	sb.WriteString(prelude)
	sb.WriteString("\n__F=" + ShQuote(ef.Name()) + "\n")
	sb.WriteString("__rst() { " + orColon(reset) + "; }\n")
	sb.WriteString("__post() { if [[ -s $__F ]]; then __e=E; else __e=-; fi; " + orColon(post) + "; }\n")
	for i, cs := range cases {
		fmt.Fprintf(&sb, "R=; __rst\neval %s 2>\"$__F\"\n__st=$?; __post; [[ \"$R\" == %s ]] || printf 'D %%s %%q\\n' %d \"$R\"\n", ShQuote(cs.Code), ShQuote(cs.Want), i)
	}
	sb.WriteString("echo END\n")
	out, _, err := ShellFile("bash", sb.String(), dir)
	if err != nil {
		return nil, err
	}
	lines := strings.Split(strings.TrimSuffix(string(out), "\n"), "\n")
	if len(lines) == 0 || lines[len(lines)-1] != "END" {
		return nil, fmt.Errorf("bash batch did not reach END (last line %q)", lines[len(lines)-1])
	}
	var diffs []Diff
	for _, ln := range lines[:len(lines)-1] {
		f := strings.SplitN(ln, " ", 3)
		if len(f) != 3 || f[0] != "D" {
			return nil, fmt.Errorf("unexpected bash output %q", ln)
		}
		idx, err := strconv.Atoi(f[1])
		if err != nil {
			return nil, fmt.Errorf("unexpected bash output %q", ln)
		}
		got, err := UnquoteBashQ(f[2])
		if err != nil {
			return nil, fmt.Errorf("cannot unquote %q: %v", f[2], err)
		}
		diffs = append(diffs, Diff{idx, got})
	}
	return diffs, nil
}
