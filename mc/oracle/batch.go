package oracle

import (
	"fmt"
	"strconv"
	"strings"
)

// EvalCase is one case for BashEvalBatch: Code is evaluated with `eval` in a
// long-lived bash process after Reset; what it leaves in variable R (and its
// exit status) is compared inside bash with Want, and only differences are
// reported back.
type EvalCase struct {
	Code string // shell text; must set R
	Want string // expected "status:R"
}

// Diff is a case whose bash result differed from Want.
type Diff struct {
	Index int
	Got   string
}

// BashEvalBatch runs all cases in one bash process. prelude is run once;
// reset (shell text) before every case. Each case is `eval`ed with stderr
// discarded, so syntax and expansion errors only affect that case. It
// returns the cases where bash's "status:R" differs from Want.
func BashEvalBatch(prelude, reset string, cases []EvalCase, dir string) ([]Diff, error) {
	var sb strings.Builder
	sb.WriteString(prelude)
	sb.WriteString("\n__rst() { " + orColon(reset) + "; }\n")
	sb.WriteString(`__c() { local __id=$1 __want=$3 __st; R=; __rst; eval "$2" 2>/dev/null; __st=$?; [[ "$__st:$R" == "$__want" ]] || printf 'D %s %q\n' "$__id" "$__st:$R"; }
`)
	for i, cs := range cases {
		fmt.Fprintf(&sb, "__c %d %s %s\n", i, ShQuote(cs.Code), ShQuote(cs.Want))
	}
	sb.WriteString("echo END\n")
	out, _, err := ShellFile("bash", sb.String(), dir)
	if err != nil {
		return nil, err
	}
	lines := strings.Split(strings.TrimSuffix(string(out), "\n"), "\n")
	if len(lines) == 0 || lines[len(lines)-1] != "END" {
		return nil, fmt.Errorf("bash batch did not reach END (last line %q)", lines[len(lines)-1])
	}
	var diffs []Diff
	for _, ln := range lines[:len(lines)-1] {
		f := strings.SplitN(ln, " ", 3)
		if len(f) != 3 || f[0] != "D" {
			return nil, fmt.Errorf("unexpected bash output %q", ln)
		}
		idx, err := strconv.Atoi(f[1])
		if err != nil {
			return nil, fmt.Errorf("unexpected bash output %q", ln)
		}
		got, err := UnquoteBashQ(f[2])
		if err != nil {
			return nil, fmt.Errorf("cannot unquote %q: %v", f[2], err)
		}
		diffs = append(diffs, Diff{idx, got})
	}
	return diffs, nil
}

func orColon(s string) string {
	if strings.TrimSpace(s) == "" {
		return ":"
	}
	return s
}

// UnquoteBashQ reverses bash's printf %q for a single word.
func UnquoteBashQ(s string) (string, error) {
	if s == "''" {
		return "", nil
	}
	if strings.HasPrefix(s, "$'") && strings.HasSuffix(s, "'") {
		body := s[2 : len(s)-1]
		var sb strings.Builder
		for i := 0; i < len(body); i++ {
			c := body[i]
			if c != '\\' {
				sb.WriteByte(c)
				continue
			}
			i++
			if i >= len(body) {
				return "", fmt.Errorf("dangling backslash")
			}
			switch body[i] {
			case 'n':
				sb.WriteByte('\n')
			case 't':
				sb.WriteByte('\t')
			case 'r':
				sb.WriteByte('\r')
			case 'a':
				sb.WriteByte(7)
			case 'b':
				sb.WriteByte(8)
			case 'f':
				sb.WriteByte(12)
			case 'v':
				sb.WriteByte(11)
			case 'E', 'e':
				sb.WriteByte(27)
			case '\\', '\'', '"', '?':
				sb.WriteByte(body[i])
			case '0', '1', '2', '3', '4', '5', '6', '7':
				j := i
				for j < len(body) && j < i+3 && body[j] >= '0' && body[j] <= '7' {
					j++
				}
				n, _ := strconv.ParseUint(body[i:j], 8, 16)
				sb.WriteByte(byte(n))
				i = j - 1
			default:
				return "", fmt.Errorf("unknown escape \\%c", body[i])
			}
		}
		return sb.String(), nil
	}
	var sb strings.Builder
	for i := 0; i < len(s); i++ {
		if s[i] == '\\' && i+1 < len(s) {
			i++
		}
		sb.WriteByte(s[i])
	}
	return sb.String(), nil
}
