// Package oracle holds the real-shell drivers and reference models.
package oracle

import (
	"bytes"
	"os"
	"os/exec"
	"strings"
)

// ShQuote quotes s for a POSIX shell with single quotes. s must not
// contain NUL.
func ShQuote(s string) string {
	if s == "" {
		return "''"
	}
	return "'" + strings.ReplaceAll(s, "'", `'\''`) + "'"
}

// Shell runs script (on stdin... no: via a temp-free -c argument is limited
// in size, so through stdin of `shell -s`) and returns stdout and the exit
// code. The environment is minimal and deterministic.
func Shell(shell string, script string, dir string, extraEnv ...string) (stdout []byte, exit int, err error) {
	cmd := exec.Command(shell, "-s")
	cmd.Env = append([]string{"LC_ALL=C.utf8", "PATH=/usr/bin:/bin", "HOME=/nonexistent"}, extraEnv...)
	cmd.Dir = dir
	cmd.Stdin = strings.NewReader(script)
	var out bytes.Buffer
	cmd.Stdout = &out
	cmd.Stderr = nil
	err = cmd.Run()
	if ee, ok := err.(*exec.ExitError); ok {
		return out.Bytes(), ee.ExitCode(), nil
	}
	return out.Bytes(), 0, err
}

// ShellFile is like Shell but the script is passed as a file so that the
// script's own stdin is free (empty).
func ShellFile(shell string, script string, dir string, extraEnv ...string) (stdout []byte, exit int, err error) {
	f, err := os.CreateTemp("", "vscript-*.sh")
	if err != nil {
		return nil, 0, err
	}
	defer os.Remove(f.Name())
	f.WriteString(script)
	f.Close()
	cmd := exec.Command(shell, f.Name())
	cmd.Env = append([]string{"LC_ALL=C.utf8", "PATH=/usr/bin:/bin", "HOME=/nonexistent"}, extraEnv...)
	cmd.Dir = dir
	var out bytes.Buffer
	cmd.Stdout = &out
	err = cmd.Run()
	if ee, ok := err.(*exec.ExitError); ok {
		return out.Bytes(), ee.ExitCode(), nil
	}
	return out.Bytes(), 0, err
}
