package oracle

import (
	"bytes"
	"context"
	"fmt"
	"runtime/debug"
	"strings"
	"time"

	"mvdan.cc/sh/v3/expand"
	"mvdan.cc/sh/v3/interp"
	"mvdan.cc/sh/v3/syntax"
)

// RunInterpNoStdin is RunInterp(src, InterpOpts{NoExec: true}) with the
// runner's standard input left nil. RunInterp hands the runner a
// strings.Reader, for which interp.StdIO creates an OS pipe and a copying
// goroutine per runner (about ten system calls); checks that run millions of
// tiny programs which never read stdin (C20, C24) use this instead. Fresh
// runner per call, empty environment, external commands fail with 127.
func RunInterpNoStdin(src string) (res InterpResult) {
	defer func() {
		if r := recover(); r != nil {
			res.Panicked = true
			res.Fatal = fmt.Sprintf("panic: %v\n%s", r, debug.Stack())
		}
	}()
	f, err := syntax.NewParser(syntax.Variant(syntax.LangBash)).Parse(strings.NewReader(src), "")
	if err != nil {
		res.ParseErr = err.Error()
		return res
	}
	var out, errb bytes.Buffer
	r, err := interp.New(
		interp.Env(expand.ListEnviron()),
		interp.StdIO(nil, &out, &errb),
		interp.ExecHandlers(func(next interp.ExecHandlerFunc) interp.ExecHandlerFunc {
			return func(ctx context.Context, args []string) error {
				hc := interp.HandlerCtx(ctx)
				fmt.Fprintf(hc.Stderr, "%s: external commands are disabled\n", args[0])
				return interp.ExitStatus(127)
			}
		}),
	)
	if err != nil {
		res.Fatal = "interp.New: " + err.Error()
		return res
	}
	ctx, cancel := context.WithTimeout(context.Background(), 20*time.Second)
	defer cancel()
	err = r.Run(ctx, f)
	res.Stdout, res.Stderr = out.String(), errb.String()
	if err != nil {
		if st, ok := interp.IsExitStatus(err); ok {
			res.Status = int(st)
		} else {
			res.Status = 1
			res.Fatal = err.Error()
		}
	}
	return res
}
