package oracle

import (
	"bytes"
	"fmt"
	"strconv"
	"strings"
)

// ArgsResult is what a real shell produced for one `set -- <words>` case.
type ArgsResult struct {
	Ran    bool     // false: the shell died on (or before) this case even when run alone
	Status int      // status of the eval (non-zero: syntax or expansion error)
	Args   []string // the positional parameters afterwards (only when Status == 0)
}

// ShellArgsBatch evaluates `set -- <words[i]>` for every i in ONE process of
// shell ("bash" or "dash") and returns the resulting argument vectors. Each
// case is confined with `command eval` (so that a syntax error does not
// terminate dash) and its output is framed as NUL-separated tokens
// "index status argc args...", which arbitrary argument bytes cannot forge
// because arguments cannot contain NUL. If the shell still dies on a case,
// that case is reported with Ran=false and the remaining ones are run in a
// new process.
func ShellArgsBatch(shell string, words []string, dir string) ([]ArgsResult, error) {
	res := make([]ArgsResult, len(words))
	start := 0
	for start < len(words) {
		var sb strings.Builder
		sb.WriteString(`c() { k=$1; command eval "set -- $2" 2>/dev/null; st=$?; printf '%d\000%d\000%d\000' $k $st $#; [ $# -gt 0 ] && printf '%s\000' "$@"; }` + "\n")
		for i := start; i < len(words); i++ {
			fmt.Fprintf(&sb, "c %d %s\n", i, ShQuote(words[i]))
		}
		sb.WriteString("printf 'END\\000'\n")
		out, _, err := ShellFile(shell, sb.String(), dir)
		if err != nil {
			return nil, err
		}
		toks := bytes.Split(out, []byte{0})
		// the output ends with a NUL, so the last token is empty
		if len(toks) > 0 && len(toks[len(toks)-1]) == 0 {
			toks = toks[:len(toks)-1]
		}
		next := start
		p := 0
		ended := false
		for p < len(toks) {
			if string(toks[p]) == "END" && p == len(toks)-1 {
				ended = true
				break
			}
			if p+3 > len(toks) {
				break // truncated record
			}
			k, e1 := strconv.Atoi(string(toks[p]))
			st, e2 := strconv.Atoi(string(toks[p+1]))
			n, e3 := strconv.Atoi(string(toks[p+2]))
			if e1 != nil || e2 != nil || e3 != nil || k != next {
				return nil, fmt.Errorf("%s batch: malformed record at token %d (%q)", shell, p, toks[p])
			}
			p += 3
			if p+n > len(toks) {
				break
			}
			r := ArgsResult{Ran: true, Status: st}
			if st == 0 {
				for _, t := range toks[p : p+n] {
					r.Args = append(r.Args, string(t))
				}
			}
			p += n
			res[k] = r
			next = k + 1
		}
		if ended {
			if next != len(words) {
				return nil, fmt.Errorf("%s batch: END after %d of %d cases", shell, next, len(words))
			}
			break
		}
		// the shell died while evaluating case `next`
		if next >= len(words) {
			return nil, fmt.Errorf("%s batch: no END marker", shell)
		}
		res[next] = ArgsResult{Ran: false}
		start = next + 1
	}
	return res, nil
}
