package oracle

import (
	"bytes"
	"context"
	"fmt"
	"runtime/debug"
	"strings"
	"time"

	"mvdan.cc/sh/v3/expand"
	"mvdan.cc/sh/v3/interp"
	"mvdan.cc/sh/v3/syntax"
)

// InterpResult is what one run of the interpreter produced.
type InterpResult struct {
	Stdout   string
	Stderr   string
	Status   int    // exit status (0..255)
	ParseErr string // non-empty if the program did not parse
	Fatal    string // non-exit-status error from Run (e.g. context deadline), or a panic
	Panicked bool
}

// InterpOpts configures RunInterp.
type InterpOpts struct {
	Dir     string   // working directory ("" = a path that is not used)
	Env     []string // name=value pairs; default is empty
	Params  []string // positional parameters
	Stdin   string
	Lang    syntax.LangVariant // default LangBash
	Timeout time.Duration      // default 20s (a hang guard, not an oracle)
	// NoExec makes every external command fail with 127 instead of running.
	NoExec bool
}

// RunInterp parses and runs src with a fresh interp.Runner. External
// commands are run as usual unless opts.NoExec is set. It never panics.
func RunInterp(src string, opts InterpOpts) (res InterpResult) {
	lang := opts.Lang
	if lang == 0 {
		lang = syntax.LangBash
	}
	defer func() {
		if r := recover(); r != nil {
			res.Panicked = true
			res.Fatal = fmt.Sprintf("panic: %v\n%s", r, debug.Stack())
		}
	}()
	f, err := syntax.NewParser(syntax.Variant(lang)).Parse(strings.NewReader(src), "")
	if err != nil {
		res.ParseErr = err.Error()
		return res
	}
	return RunInterpFile(f, opts)
}

// RunInterpFile is RunInterp for an already parsed file.
func RunInterpFile(f *syntax.File, opts InterpOpts) (res InterpResult) {
	defer func() {
		if r := recover(); r != nil {
			res.Panicked = true
			res.Fatal = fmt.Sprintf("panic: %v\n%s", r, debug.Stack())
		}
	}()
	var out, errb bytes.Buffer
	ropts := []interp.RunnerOption{
		interp.Env(expand.ListEnviron(opts.Env...)),
		interp.StdIO(strings.NewReader(opts.Stdin), &out, &errb),
	}
	if opts.Dir != "" {
		ropts = append(ropts, interp.Dir(opts.Dir))
	}
	if opts.Params != nil {
		ropts = append(ropts, interp.Params(append([]string{"--"}, opts.Params...)...))
	}
	if opts.NoExec {
		ropts = append(ropts, interp.ExecHandlers(func(next interp.ExecHandlerFunc) interp.ExecHandlerFunc {
			return func(ctx context.Context, args []string) error {
				hc := interp.HandlerCtx(ctx)
				fmt.Fprintf(hc.Stderr, "%s: external commands are disabled\n", args[0])
				return interp.ExitStatus(127)
			}
		}))
	}
	r, err := interp.New(ropts...)
	if err != nil {
		res.Fatal = "interp.New: " + err.Error()
		return res
	}
	to := opts.Timeout
	if to == 0 {
		to = 20 * time.Second
	}
	ctx, cancel := context.WithTimeout(context.Background(), to)
	defer cancel()
	err = r.Run(ctx, f)
	res.Stdout, res.Stderr = out.String(), errb.String()
	if err != nil {
		var es interp.ExitStatus
		if st, ok := interp.IsExitStatus(err); ok {
			res.Status = int(st)
		} else {
			_ = es
			res.Status = 1
			res.Fatal = err.Error()
		}
	}
	return res
}
