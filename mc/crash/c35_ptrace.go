//go:build linux && amd64

// Package crash is the syscall-boundary crash enumerator (DESIGN.md §2.4, E4):
// a ptrace supervisor that runs a command, records the ordered list of
// file-system-relevant system-call entries, and can SIGKILL the whole process
// at the entry stop of the k-th such call, so that the call does not execute.
package crash

import (
	"bytes"
	"fmt"
	"io"
	"os"
	"path/filepath"
	"runtime"
	"strings"
	"sync/atomic"
	"syscall"
	"time"
	"unsafe"
)

// Event is one relevant system-call entry.
type Event struct {
	Seq   int       `json:"seq"`   // 1-based index among all syscall entries of the run
	Tid   int       `json:"-"`     // thread that made the call
	Name  string    `json:"name"`  // syscall name
	Paths []string  `json:"paths"` // the arguments (paths, or files behind fds) that made it relevant
	Args  [6]uint64 `json:"-"`
}

// Sig is the schedule-independent signature of an event: the syscall name and
// its relevant paths with run-specific random suffixes (temp file names)
// replaced by "#".
func (e *Event) Sig() string {
	var b strings.Builder
	b.WriteString(e.Name)
	for _, p := range e.Paths {
		b.WriteByte(' ')
		b.WriteString(NormPath(p))
	}
	return b.String()
}

// NormPath replaces every maximal run of >= 6 decimal digits by '#': both
// os.CreateTemp and renameio append a random decimal number to temp names.
func NormPath(p string) string {
	var b strings.Builder
	for i := 0; i < len(p); {
		j := i
		for j < len(p) && p[j] >= '0' && p[j] <= '9' {
			j++
		}
		if j-i >= 6 {
			b.WriteByte('#')
			i = j
			continue
		}
		if j == i {
			j = i + 1
		}
		b.WriteString(p[i:j])
		i = j
	}
	return b.String()
}

type Options struct {
	Argv []string
	Env  []string
	Dir  string
	// Roots are the directories whose contents matter: a syscall entry is
	// relevant when one of its path arguments resolves to a root or below, or
	// one of its fd arguments is open on such a file.
	Roots []string
	// KillAt > 0: SIGKILL the process at the entry stop of the KillAt-th
	// relevant syscall. 0: run to completion.
	KillAt int
	// Timeout is a guard against a blocked child (default 20s).
	Timeout time.Duration
	// OnRelevant, if set, is called at every relevant entry stop (before the
	// kill decision and before the call executes).
	OnRelevant func(*Event)
	// Umask, if non-nil, is the file mode creation mask the command starts
	// with (default: the supervisor's own). It is set on the tracer thread
	// only (unshare(CLONE_FS) first), so concurrent runs and the rest of the
	// supervising process keep their mask.
	Umask *int
}

type Result struct {
	Relevant      []Event
	TotalSyscalls int            // all syscall entries seen, relevant or not
	Threads       int            // threads seen
	Killed        bool           // killed by the supervisor at KillAt
	TimedOut      bool           // killed by the timeout guard
	ExitCode      int            // valid when !Killed && !TimedOut && Signal == 0
	Signal        syscall.Signal // non-zero when the main thread died from a signal
	Stdout        []byte
	Stderr        []byte
	Unclassified  map[string]int // syscalls that are in neither table (coverage hole)
}

const (
	ptraceOTraceSysGood  = 0x1
	ptraceOTraceFork     = 0x2
	ptraceOTraceVfork    = 0x4
	ptraceOTraceClone    = 0x8
	ptraceOTraceExec     = 0x10
	ptraceOExitKill      = 0x100000
	ptraceGetSyscallInfo = 0x420e
	wAll                 = 0x40000000
	wNoThread            = 0x20000000
	atFdCwd              = -100
)

// struct ptrace_syscall_info
type syscallInfo struct {
	Op   uint8
	_    [3]uint8
	Arch uint32
	IP   uint64
	SP   uint64
	Nr   uint64 // entry: nr; exit: rval
	Args [6]uint64
	_    [16]byte
}

// Run executes the command under the supervisor. It blocks the calling
// goroutine; the tracing itself happens on a dedicated locked OS thread.
func Run(o Options) (*Result, error) {
	type ret struct {
		r   *Result
		err error
	}
	ch := make(chan ret, 1)
	go func() {
		runtime.LockOSThread()
		// never unlocked: the thread has been a ptrace tracer and a parent;
		// letting it die with the goroutine is the cleanest state reset
		r, err := run(o)
		ch <- ret{r, err}
	}()
	x := <-ch
	return x.r, x.err
}

func run(o Options) (*Result, error) {
	if o.Timeout == 0 {
		o.Timeout = 20 * time.Second
	}
	for i, r := range o.Roots {
		o.Roots[i] = filepath.Clean(r)
	}
	devnull, err := os.Open(os.DevNull)
	if err != nil {
		return nil, err
	}
	defer devnull.Close()
	outR, outW, err := os.Pipe()
	if err != nil {
		return nil, err
	}
	errR, errW, err := os.Pipe()
	if err != nil {
		outR.Close()
		outW.Close()
		return nil, err
	}
	res := &Result{Unclassified: map[string]int{}}
	outCh := make(chan []byte, 1)
	errCh := make(chan []byte, 1)
	go func() { b, _ := io.ReadAll(outR); outR.Close(); outCh <- b }()
	go func() { b, _ := io.ReadAll(errR); errR.Close(); errCh <- b }()

	if o.Umask != nil {
		// The calling goroutine is locked to this thread (see Run), the thread
		// is never reused, and the child is forked from it: give the thread a
		// private fs_struct (cwd, root, umask) and set the mask there.
		if err := syscall.Unshare(syscall.CLONE_FS); err != nil {
			outW.Close() // the reader goroutines then see end of file and close their ends
			errW.Close()
			return nil, fmt.Errorf("unshare(CLONE_FS): %w", err)
		}
		syscall.Umask(*o.Umask)
	}
	pid, err := syscall.ForkExec(o.Argv[0], o.Argv, &syscall.ProcAttr{
		Dir:   o.Dir,
		Env:   o.Env,
		Files: []uintptr{devnull.Fd(), outW.Fd(), errW.Fd()},
		Sys:   &syscall.SysProcAttr{Ptrace: true, Setpgid: true},
	})
	outW.Close()
	errW.Close()
	collect := func() {
		res.Stdout = <-outCh
		res.Stderr = <-errCh
	}
	if err != nil {
		collect()
		return nil, fmt.Errorf("forkexec: %w", err)
	}
	pgid := pid
	var timedOut atomic.Bool
	timer := time.AfterFunc(o.Timeout, func() {
		timedOut.Store(true)
		syscall.Kill(-pgid, syscall.SIGKILL)
	})
	defer timer.Stop()
	fail := func(err error) (*Result, error) {
		syscall.Kill(-pgid, syscall.SIGKILL)
		reapAll(pgid)
		collect()
		return nil, err
	}

	var ws syscall.WaitStatus
	if _, err := wait4(pid, &ws, wAll); err != nil {
		return fail(fmt.Errorf("first wait: %w", err))
	}
	if !ws.Stopped() {
		return fail(fmt.Errorf("child did not stop at exec: status %#x", uint32(ws)))
	}
	if err := syscall.PtraceSetOptions(pid, ptraceOTraceSysGood|ptraceOTraceClone|ptraceOTraceFork|ptraceOTraceVfork|ptraceOExitKill); err != nil {
		return fail(fmt.Errorf("setoptions: %w", err))
	}
	if err := syscall.PtraceSyscall(pid, 0); err != nil {
		return fail(fmt.Errorf("ptrace syscall: %w", err))
	}
	live := map[int]bool{pid: true}
	res.Threads = 1
	mem, _ := os.Open(fmt.Sprintf("/proc/%d/mem", pid))
	if mem != nil {
		defer mem.Close()
	}
	nrel := 0
	killed := false
	for len(live) > 0 {
		wpid, err := wait4(-pgid, &ws, wAll|wNoThread)
		if err == syscall.ECHILD {
			break
		}
		if err != nil {
			return fail(fmt.Errorf("wait4: %w", err))
		}
		switch {
		case ws.Exited():
			delete(live, wpid)
			if wpid == pid {
				res.ExitCode = ws.ExitStatus()
			}
			continue
		case ws.Signaled():
			delete(live, wpid)
			if wpid == pid {
				res.Signal = ws.Signal()
			}
			continue
		case !ws.Stopped():
			continue
		}
		if killed {
			// a stop raced with our SIGKILL; nothing to resume
			continue
		}
		sig := ws.StopSignal()
		inject := 0
		switch {
		case sig == syscall.SIGTRAP|0x80:
			var info syscallInfo
			if err := getSyscallInfo(wpid, &info); err != nil {
				if err == syscall.ESRCH {
					continue
				}
				return fail(fmt.Errorf("get_syscall_info: %w", err))
			}
			if info.Op == 1 { // entry
				res.TotalSyscalls++
				ev := classify(o.Roots, pid, wpid, mem, &info, res)
				if ev != nil {
					nrel++
					ev.Seq = res.TotalSyscalls
					res.Relevant = append(res.Relevant, *ev)
					if o.OnRelevant != nil {
						o.OnRelevant(ev)
					}
					if o.KillAt > 0 && nrel == o.KillAt {
						// The thread is in syscall-enter-stop: a fatal signal
						// pending when it leaves the stop aborts the call.
						syscall.Kill(pid, syscall.SIGKILL)
						killed = true
						res.Killed = true
						continue
					}
				}
			}
		case sig == syscall.SIGTRAP && ws.TrapCause() > 0:
			// clone/fork/vfork event; the new task attaches by itself
		case sig == syscall.SIGSTOP && !live[wpid]:
			live[wpid] = true
			res.Threads++
		case sig == syscall.SIGTRAP:
			// exec trap and similar: do not deliver
		default:
			inject = int(sig)
		}
		if err := syscall.PtraceSyscall(wpid, inject); err != nil && err != syscall.ESRCH {
			return fail(fmt.Errorf("ptrace syscall: %w", err))
		}
	}
	reapAll(pgid)
	timer.Stop()
	res.TimedOut = timedOut.Load()
	collect()
	return res, nil
}

func reapAll(pgid int) {
	var ws syscall.WaitStatus
	for {
		_, err := wait4(-pgid, &ws, wAll|wNoThread)
		if err != nil && err != syscall.EINTR {
			return
		}
	}
}

func wait4(pid int, ws *syscall.WaitStatus, opts int) (int, error) {
	for {
		w, err := syscall.Wait4(pid, ws, opts, nil)
		if err == syscall.EINTR {
			continue
		}
		return w, err
	}
}

func getSyscallInfo(tid int, info *syscallInfo) error {
	_, _, e := syscall.Syscall6(syscall.SYS_PTRACE, ptraceGetSyscallInfo, uintptr(tid), unsafe.Sizeof(*info), uintptr(unsafe.Pointer(info)), 0, 0)
	if e != 0 {
		return e
	}
	return nil
}

// readString reads a NUL-terminated string from the tracee.
func readString(mem *os.File, tid int, addr uint64) (string, bool) {
	if addr == 0 {
		return "", false
	}
	var out []byte
	buf := make([]byte, 256)
	for len(out) < 8192 {
		n := 0
		var err error
		if mem != nil {
			// stay within one page per read so that an unmapped next page
			// does not fail the whole read
			want := int(4096 - (addr+uint64(len(out)))%4096)
			if want > len(buf) {
				want = len(buf)
			}
			n, err = mem.ReadAt(buf[:want], int64(addr)+int64(len(out)))
		}
		if mem == nil || (n == 0 && err != nil) {
			n, err = syscall.PtracePeekData(tid, uintptr(addr)+uintptr(len(out)), buf[:8])
			if n == 0 || err != nil {
				return string(out), false
			}
		}
		if i := bytes.IndexByte(buf[:n], 0); i >= 0 {
			out = append(out, buf[:i]...)
			return string(out), true
		}
		out = append(out, buf[:n]...)
	}
	return string(out), false
}

func fdPath(pid int, fd int64) string {
	if fd < 0 {
		return ""
	}
	p, err := os.Readlink(fmt.Sprintf("/proc/%d/fd/%d", pid, fd))
	if err != nil {
		return ""
	}
	return strings.TrimSuffix(p, " (deleted)")
}

func underRoots(roots []string, p string) bool {
	if p == "" || p[0] != '/' {
		return false
	}
	for _, r := range roots {
		if p == r || strings.HasPrefix(p, r+"/") {
			return true
		}
	}
	return false
}

// classify decides whether a syscall entry is relevant and returns its event.
func classify(roots []string, pid, tid int, mem *os.File, info *syscallInfo, res *Result) *Event {
	nr := int(info.Nr)
	spec, ok := fsSyscalls[nr]
	if !ok {
		if _, ok := otherSyscalls[nr]; !ok {
			res.Unclassified[fmt.Sprintf("nr%d", nr)]++
		}
		return nil
	}
	var hits []string
	for _, pa := range spec.paths {
		s, ok := readString(mem, tid, info.Args[pa.path])
		if !ok {
			res.Unclassified[spec.name+":unreadable-path"]++
			continue
		}
		full := s
		if s == "" || s[0] != '/' {
			base := ""
			if pa.dirfd < 0 || int32(info.Args[pa.dirfd]) == atFdCwd {
				base, _ = os.Readlink(fmt.Sprintf("/proc/%d/cwd", pid))
			} else {
				base = fdPath(pid, int64(int32(info.Args[pa.dirfd])))
			}
			if base == "" {
				continue
			}
			full = base + "/" + s
		}
		full = filepath.Clean(full)
		if underRoots(roots, full) {
			hits = append(hits, full)
		}
	}
	for _, fa := range spec.fds {
		p := fdPath(pid, int64(int32(info.Args[fa])))
		if underRoots(roots, p) {
			hits = append(hits, p)
		}
	}
	if len(hits) == 0 {
		return nil
	}
	return &Event{Tid: tid, Name: spec.name, Paths: hits, Args: info.Args}
}
