//go:build verif && !race

package vsched

const RaceEnabled = false

func raceAcquire(p *uint64)      {}
func raceReleaseMerge(p *uint64) {}

func raceDisable() {}
func raceEnable()  {}
