//go:build verif && race

package vsched

import (
	"runtime"
	"unsafe"
)

const RaceEnabled = true

func raceAcquire(p *uint64)      { runtime.RaceAcquire(unsafe.Pointer(p)) }
func raceReleaseMerge(p *uint64) { runtime.RaceReleaseMerge(unsafe.Pointer(p)) }

func raceDisable() { runtime.RaceDisable() }
func raceEnable()  { runtime.RaceEnable() }
