//go:build verif

// Package vsched is the controlled scheduler that the instrumented copy of
// mvdan.cc/sh/v3/interp is linked against (it exists only in the verification
// overlay, as the virtual package mvdan.cc/sh/v3/vsched).
//
// Exactly one registered goroutine ("thread") runs at a time. At every
// scheduling point the running thread asks the explorer which enabled thread
// goes next and hands it the token. Blocking operations (pipe reads and
// writes, FIFO opens, waiting for a channel to be closed, WaitGroup waits,
// AfterFunc callbacks) are modelled, so whether a thread is enabled is known
// exactly, and "no thread enabled" is a deadlock rather than a hang.
//
// The hand-off is a spin on a plain word inside //go:norace functions, which
// the race detector neither instruments nor treats as synchronisation, so a
// -race build still sees only the program's own happens-before edges: goroutine
// start, close->receive, WaitGroup Done->Wait (all executed for real once the
// model says they cannot block) and, for the modelled pipes, the same
// ReleaseMerge/Acquire pair on one global word that internal/poll uses for real
// file descriptors.
//
// Rules for this file: shared scheduler state is only touched by plain loads
// and stores in //go:norace functions; no maps, no copy(), no append(x, y...)
// on shared data (the runtime instruments those regardless of norace).
package vsched

import (
	"context"
	"fmt"
	"io"
	"os"
	"reflect"
	"runtime"
	"runtime/debug"
	"sync"
	"syscall"
	"time"
	"unsafe"
)

// Rec is one recorded scheduling decision (only points with more than one
// enabled thread are recorded).
type Rec struct {
	N          int    `json:"n"`       // number of enabled threads
	Chosen     int    `json:"c"`       // index chosen
	CurEnabled bool   `json:"cur"`     // the running thread was enabled (index 0)
	Forced     bool   `json:"f"`       // chosen by the forced-cancel policy, not by default/prefix
	Label      string `json:"l"`       // what the running thread was about to do
	Tids       []int  `json:"tids"`    // enabled thread ids in canonical order
	Point      int    `json:"p"`       // global point index
}

const (
	stRunnable = iota
	stDone
	stRemoved
)

const (
	cNone = iota
	cPipeRead
	cPipeWrite
	cChanClosed
	cWG
	cFifoOpen
	cCtxDone
	cAfterFunc
	cPipeReadOrCancel
	cSelect
	cNever
)

type Thread struct {
	id    int
	name  string
	state int
	// blocking condition
	ckind int
	cpipe *pipe
	cchan any
	cwg   *wgModel
	cfifo *fifo
	cside int
	cctx  context.Context
	cdone <-chan struct{} // ctx.Done(), taken by the thread that owns ctx
	csel  []<-chan struct{}
	// for the canceller policy
	isCanceller bool
	started     bool
}

type wgModel struct {
	wg *sync.WaitGroup
	n  int
}

type Sched struct {
	cur     int32
	dead    bool
	quiet   bool // quiescent: execution over (all done, deadlock, abort)
	threads []*Thread

	prefix []int
	step   int
	points int
	Recs   []Rec

	MaxPoints     int // horizon
	ForceCancelAt int // if >0: at point >= this, run the canceller as soon as it is enabled
	PipeCap       int

	// outcome flags
	Deadlock     bool
	Diverged     bool
	Horizon      bool
	Blocked      []string // names of threads still blocked at the end
	Panic        string
	PanicStack   string
	CancelPoint  int      // point index at which the canceller ran (-1: never)
	MainDonePoint int     // point index at which thread 0 finished (-1: never)

	cancelled bool
	closed []any
	wgs    []*wgModel
	fifos  []*fifo
	done0  chan struct{}
	leaked int
}

var active *Sched

// LeakedTotal counts goroutines parked forever in this process.
var LeakedTotal int

//go:norace
func Active() bool { return active != nil }

// New creates a scheduler for one execution following the given choice prefix.
func New(prefix []int) *Sched {
	s := &Sched{prefix: prefix, MaxPoints: 5000, PipeCap: 65536, CancelPoint: -1, MainDonePoint: -1}
	return s
}

//go:norace
func (s *Sched) newThread(name string) *Thread {
	t := &Thread{id: len(s.threads), name: name}
	s.threads = append(s.threads, t)
	return t
}

//go:norace
func (s *Sched) me() *Thread { return s.threads[s.cur] }

//go:norace
//go:noinline
func (s *Sched) waitTurn(me *Thread) {
	for s.cur != int32(me.id) || s.dead {
		if s.dead {
			park()
		}
		runtime.Gosched()
	}
}

func park() {
	select {}
}

//go:norace
func (s *Sched) enabled(t *Thread) bool {
	if t.state != stRunnable {
		return false
	}
	switch t.ckind {
	case cNone:
		return true
	case cPipeRead:
		p := t.cpipe
		return len(p.buf) > 0 || p.wclosed || p.rclosed || p.deadline
	case cPipeReadOrCancel:
		p := t.cpipe
		return len(p.buf) > 0 || p.wclosed || p.rclosed || p.deadline || chanClosed(t.cdone)
	case cSelect:
		for _, ch := range t.csel {
			if chanClosed(ch) {
				return true
			}
		}
		return false
	case cPipeWrite:
		p := t.cpipe
		return len(p.buf) < p.cap || p.rclosed || p.wclosed
	case cChanClosed:
		for _, c := range s.closed {
			if c == t.cchan {
				return true
			}
		}
		return false
	case cWG:
		return t.cwg.n == 0
	case cFifoOpen:
		f := t.cfifo
		if t.cside == 0 { // reader waits for a writer
			return f.wopen > 0
		}
		return f.ropen > 0
	case cCtxDone:
		// Asking the context itself (ctx.Err()) from another thread would read
		// memory the owning thread wrote; its Done channel was taken by the
		// owner and is only polled here.
		return chanClosed(t.cdone)
	case cAfterFunc:
		return t.started
	case cNever:
		return false
	}
	return false
}

//go:norace
func (s *Sched) enabledList(me *Thread) []*Thread {
	var out []*Thread
	if me != nil && s.enabled(me) {
		out = append(out, me)
	}
	for _, t := range s.threads {
		if t != me && s.enabled(t) {
			out = append(out, t)
		}
	}
	return out
}

//go:norace
func (s *Sched) abort() {
	s.finishExec()
	park()
}

//go:norace
func (s *Sched) finishExec() {
	for _, t := range s.threads {
		if t.state == stRunnable {
			s.Blocked = append(s.Blocked, t.name)
			s.leaked++
			LeakedTotal++
		}
	}
	if len(s.Blocked) > 0 && s.threads[0].state != stDone && !s.Horizon && !s.Diverged {
		s.Deadlock = true
	}
	s.dead = true
	s.quiet = true
}

// decide picks the next thread among en (canonical order) and records it.
//
//go:norace
func (s *Sched) decide(en []*Thread, curEnabled bool, label string) *Thread {
	s.points++
	if s.points > s.MaxPoints {
		s.Horizon = true
		return nil
	}
	if len(en) == 1 {
		return en[0]
	}
	choice, forced := 0, false
	if s.step < len(s.prefix) {
		choice = s.prefix[s.step]
		if choice < 0 || choice >= len(en) {
			s.Diverged = true
			return nil
		}
	} else if s.ForceCancelAt > 0 && s.points >= s.ForceCancelAt {
		for i, t := range en {
			if t.isCanceller {
				choice, forced = i, true
			}
		}
	}
	tids := make([]int, 0, len(en))
	for _, t := range en {
		tids = append(tids, t.id)
	}
	s.Recs = append(s.Recs, Rec{N: len(en), Chosen: choice, CurEnabled: curEnabled, Forced: forced, Label: label, Tids: tids, Point: s.points})
	s.step++
	return en[choice]
}

// yield is a scheduling point of the running thread me (whose blocking
// condition, if any, is already set).
//
//go:norace
func (s *Sched) yield(me *Thread, label string) {
	en := s.enabledList(me)
	if len(en) == 0 {
		s.abort()
	}
	next := s.decide(en, en[0] == me, label)
	if next == nil {
		s.abort()
	}
	if next.isCanceller && s.CancelPoint < 0 {
		s.CancelPoint = s.points
	}
	if next != me {
		s.cur = int32(next.id)
		s.waitTurn(me)
	}
}

// finish ends the running thread.
//
//go:norace
func (s *Sched) finish(me *Thread) {
	me.state = stDone
	if me.id == 0 {
		s.MainDonePoint = s.points
	}
	en := s.enabledList(nil)
	if len(en) == 0 {
		s.finishExec()
		return
	}
	next := s.decide(en, false, "exit:"+me.name)
	if next == nil {
		s.finishExec()
		return
	}
	if next.isCanceller && s.CancelPoint < 0 {
		s.CancelPoint = s.points
	}
	s.cur = int32(next.id)
}

// Run executes main as thread 0 under s and returns when the execution is
// over (all threads finished, or deadlock/abort). mainDone reports whether
// thread 0 returned from main.
func (s *Sched) Run(main func()) (mainDone bool) {
	s.done0 = make(chan struct{})
	t0 := s.newThread("main")
	setActive(s)
	go func() {
		s.waitTurn(t0)
		s.guard(main)
		close(s.done0) // real edge: the controller may read what main wrote
		s.finish(t0)
	}()
	s.waitQuiet()
	setActive(nil)
	if mainFinished(t0) {
		<-s.done0
		return true
	}
	return false
}

//go:norace
func mainFinished(t *Thread) bool { return t.state == stDone }

//go:norace
func setActive(s *Sched) { active = s }

//go:norace
//go:noinline
func (s *Sched) waitQuiet() {
	start := time.Now()
	n := 0
	for !s.quiet {
		runtime.Gosched()
		n++
		if n%1024 == 0 && time.Since(start) > 120*time.Second {
			panic("vsched: execution did not reach quiescence in 120 s (a thread runs without scheduling points or blocks outside the model)")
		}
	}
}

//go:norace
func (s *Sched) Leaked() int { return s.leaked }

// guard runs f and records a panic instead of letting it kill the process
// (the thread then ends; deferred calls of the interpreter have run).
func (s *Sched) guard(f func()) {
	defer func() {
		if r := recover(); r != nil {
			s.notePanic(fmt.Sprint(r), string(debug.Stack()))
		}
	}()
	f()
}

//go:norace
func (s *Sched) notePanic(msg, stack string) {
	if s.Panic == "" {
		s.Panic = msg
		s.PanicStack = stack
	}
}

//go:norace
func (s *Sched) PanicInfo() (string, string) { return s.Panic, s.PanicStack }

// ---- operations used by the instrumented code ----

// Point is a pure scheduling point.
//
//go:norace
func Point(label string) {
	s := active
	if s == nil {
		return
	}
	s.yield(s.me(), label)
}

// Go starts f as a new thread.
func Go(label string, f func()) {
	s := active
	if s == nil {
		go f()
		return
	}
	t := s.spawn(label, false)
	go func() {
		s.waitTurn(t)
		s.guard(f)
		s.finish(t)
	}()
	Point("spawned:" + label)
}

//go:norace
func (s *Sched) spawn(label string, canceller bool) *Thread {
	t := s.newThread(label)
	t.isCanceller = canceller
	return t
}

// GoCanceller starts the thread that cancels the context (C31). It is a
// thread like any other except that the forced-cancel policy knows it.
func GoCanceller(f func()) {
	s := active
	if s == nil {
		panic("vsched: GoCanceller without scheduler")
	}
	t := s.spawn("canceller", true)
	go func() {
		s.waitTurn(t)
		f()
		s.finish(t)
	}()
}

// Recv replaces `<-ch` for channels that are only ever closed.
func Recv[T any](ch <-chan T) T {
	s := active
	if s != nil {
		s.blockChan(chanKey(ch))
	}
	return <-ch
}

func chanKey[T any](ch <-chan T) any {
	return *(*unsafe.Pointer)(unsafe.Pointer(&ch))
}

//go:norace
func (s *Sched) blockChan(ch any) {
	me := s.me()
	me.ckind = cChanClosed
	me.cchan = ch
	s.yield(me, "recv")
	me.ckind = cNone
	me.cchan = nil
}

// Select replaces a select statement all of whose cases are plain receives
// from channels that are only ever closed (`case <-ch:`); it returns the index
// of the case taken. SelectDefault is the same with a default clause (-1).
func Select(chs ...<-chan struct{}) int {
	s := active
	if s != nil {
		s.blockSelect(chs)
	} else {
		cases := make([]reflect.SelectCase, len(chs))
		for i, ch := range chs {
			cases[i] = reflect.SelectCase{Dir: reflect.SelectRecv, Chan: reflect.ValueOf(ch)}
		}
		i, _, _ := reflect.Select(cases)
		return i
	}
	for i, ch := range chs {
		if chanClosed(ch) {
			<-ch // the real receive, for its happens-before edge
			return i
		}
	}
	panic("vsched: Select scheduled with no ready case")
}

func SelectDefault(chs ...<-chan struct{}) int {
	Point("select-default")
	for i, ch := range chs {
		if chanClosed(ch) {
			<-ch
			return i
		}
	}
	return -1
}

//go:norace
func (s *Sched) blockSelect(chs []<-chan struct{}) {
	me := s.me()
	me.ckind = cSelect
	me.csel = chs
	s.yield(me, "select")
	me.ckind = cNone
	me.csel = nil
}

// Close replaces close(ch).
func Close[T any](ch chan T) {
	s := active
	if s != nil {
		Point("close")
		s.markClosed(chanKey((<-chan T)(ch)))
	}
	close(ch)
}

//go:norace
func (s *Sched) markClosed(ch any) { s.closed = append(s.closed, ch) }

// WGGo replaces wg.Go(f).
func WGGo(wg *sync.WaitGroup, f func()) {
	s := active
	if s == nil {
		wg.Go(f)
		return
	}
	m := s.wgAdd(wg)
	wg.Add(1)
	Go("wg", func() {
		defer wg.Done()
		defer s.wgDone(m)
		f()
	})
}

//go:norace
func (s *Sched) wgAdd(wg *sync.WaitGroup) *wgModel {
	for _, m := range s.wgs {
		if m.wg == wg {
			m.n++
			return m
		}
	}
	m := &wgModel{wg: wg, n: 1}
	s.wgs = append(s.wgs, m)
	return m
}

//go:norace
func (s *Sched) wgDone(m *wgModel) { m.n-- }

// WGWait replaces wg.Wait().
func WGWait(wg *sync.WaitGroup) {
	s := active
	if s != nil {
		s.blockWG(wg)
	}
	wg.Wait()
}

//go:norace
func (s *Sched) blockWG(wg *sync.WaitGroup) {
	var m *wgModel
	for _, x := range s.wgs {
		if x.wg == wg {
			m = x
		}
	}
	if m == nil {
		Point("wgwait")
		return
	}
	me := s.me()
	me.ckind = cWG
	me.cwg = m
	s.yield(me, "wgwait")
	me.ckind = cNone
	me.cwg = nil
}

// AfterFunc replaces context.AfterFunc(ctx, f).
func AfterFunc(ctx context.Context, f func()) (stop func() bool) {
	s := active
	if s == nil {
		return context.AfterFunc(ctx, f)
	}
	t := s.spawnAfter()
	realStop := context.AfterFunc(ctx, func() {
		s.waitTurn(t)
		s.guard(f)
		s.finish(t)
	})
	// The goroutine above exists only once ctx is done; until then the thread
	// is not enabled. armAfter is evaluated lazily through ctx.Err().
	s.armAfter(t, ctx)
	return func() bool {
		Point("afterfunc-stop")
		if realStop() {
			s.removeThread(t)
			return true
		}
		return false
	}
}

//go:norace
func (s *Sched) spawnAfter() *Thread {
	t := s.newThread("afterfunc")
	return t
}

//go:norace
func (s *Sched) armAfter(t *Thread, ctx context.Context) {
	t.ckind = cCtxDone
	t.cctx = ctx
	t.cdone = ctx.Done()
}

//go:norace
func (s *Sched) removeThread(t *Thread) { t.state = stRemoved }

// chanClosed polls a Done channel without blocking. The race runtime's
// acquire on receiving from a closed channel is switched off around the poll:
// whoever evaluates a condition must not inherit the canceller's history.
func chanClosed(ch <-chan struct{}) bool {
	if ch == nil {
		return false
	}
	raceDisable()
	defer raceEnable()
	select {
	case <-ch:
		return true
	default:
		return false
	}
}

// NoteCancel tells the scheduler that the (single) root context of this
// execution was cancelled; threads waiting for it become enabled.
//
//go:norace
func NoteCancel() {
	if s := active; s != nil {
		s.cancelled = true
	}
}

// BlockUntilDone blocks the running thread until ctx is done (used by the
// harness for `sleep inf`).
func BlockUntilDone(ctx context.Context) {
	s := active
	if s == nil {
		<-ctx.Done()
		return
	}
	s.blockCtx(ctx)
}

//go:norace
func (s *Sched) blockCtx(ctx context.Context) {
	me := s.me()
	me.ckind = cCtxDone
	me.cctx = ctx
	me.cdone = ctx.Done()
	s.yield(me, "sleep")
	me.ckind = cNone
	me.cctx = nil
	me.cdone = nil
}

// ---- modelled pipes ----

var ioSync uint64 // the analogue of internal/poll's ioSync word

type pipe struct {
	buf      []byte
	cap      int
	rclosed  bool
	wclosed  bool
	deadline bool
}

// File is the interface the instrumented interp uses for pipe ends and FIFOs.
type File interface {
	io.ReadWriteCloser
	SetReadDeadline(t time.Time) error
}

// PipeReader / PipeWriter are the two ends of a modelled pipe.
type PipeReader struct{ p *pipe }
type PipeWriter struct{ p *pipe }

// NewPipe replaces os.Pipe().
func NewPipe() (File, File, error) {
	s := active
	if s == nil {
		pr, pw, err := os.Pipe()
		if err != nil {
			return nil, nil, err
		}
		return pr, pw, nil
	}
	p := &pipe{cap: s.pipeCap()}
	return &PipeReader{p}, &PipeWriter{p}, nil
}

//go:norace
func (s *Sched) pipeCap() int { return s.PipeCap }

func (r *PipeReader) Read(b []byte) (int, error) {
	if len(b) == 0 {
		return 0, nil
	}
	s := active
	if s == nil {
		return r.p.readNow(b)
	}
	s.blockPipe(cPipeRead, r.p, "pread")
	n, err := r.p.readNow(b)
	if err == nil || err == io.EOF {
		raceAcquire(&ioSync)
	}
	return n, err
}

//go:norace
func (s *Sched) blockPipe(kind int, p *pipe, label string) {
	me := s.me()
	me.ckind = kind
	me.cpipe = p
	s.yield(me, label)
	me.ckind = cNone
	me.cpipe = nil
}

//go:norace
func (p *pipe) readNow(b []byte) (int, error) {
	if p.rclosed {
		return 0, os.ErrClosed
	}
	if len(p.buf) > 0 {
		n := 0
		for n < len(b) && n < len(p.buf) {
			b[n] = p.buf[n]
			n++
		}
		p.buf = p.buf[n:]
		return n, nil
	}
	if p.wclosed {
		return 0, io.EOF
	}
	if p.deadline {
		return 0, os.ErrDeadlineExceeded
	}
	// without a scheduler nobody can make progress here
	return 0, io.ErrNoProgress
}

func (r *PipeReader) Write(b []byte) (int, error) { return 0, os.ErrInvalid }

func (r *PipeReader) Close() error {
	Point("pclose-r")
	r.p.closeR()
	return nil
}

//go:norace
func (p *pipe) closeR() { p.rclosed = true }

//go:norace
func (p *pipe) closeW() { p.wclosed = true }

//go:norace
func (p *pipe) setDeadline(v bool) { p.deadline = v }

func (r *PipeReader) SetReadDeadline(t time.Time) error {
	r.p.setDeadline(!t.IsZero() && !t.After(time.Now()))
	return nil
}

func (w *PipeWriter) Read(b []byte) (int, error) { return 0, os.ErrInvalid }

func (w *PipeWriter) SetReadDeadline(t time.Time) error { return nil }

func (w *PipeWriter) Write(b []byte) (int, error) {
	s := active
	total := 0
	for len(b) > 0 {
		if s != nil {
			s.blockPipe(cPipeWrite, w.p, "pwrite")
		}
		raceReleaseMerge(&ioSync)
		n, err := w.p.writeNow(b)
		total += n
		if err != nil {
			return total, err
		}
		b = b[n:]
		if s == nil && n == 0 {
			return total, io.ErrShortWrite
		}
	}
	return total, nil
}

//go:norace
func (p *pipe) writeNow(b []byte) (int, error) {
	if p.wclosed {
		return 0, os.ErrClosed
	}
	if p.rclosed {
		return 0, &os.PathError{Op: "write", Path: "|1", Err: syscall.EPIPE}
	}
	n := 0
	for n < len(b) && len(p.buf) < p.cap {
		p.buf = append(p.buf, b[n])
		n++
	}
	return n, nil
}

func (w *PipeWriter) Close() error {
	Point("pclose-w")
	w.p.closeW()
	return nil
}

// WaitReadable blocks the running thread until r can be read without
// blocking or the execution's context is cancelled, and reports which (true =
// readable). The harness' stand-ins for external commands use it so that they
// die with the context like a child process killed by DefaultExecHandler.
func WaitReadable(ctx context.Context, r io.Reader) bool {
	s := active
	pr, ok := r.(*PipeReader)
	if s == nil || !ok {
		return true
	}
	s.blockPipeCtx(pr.p, ctx.Done())
	return pr.p.readable()
}

//go:norace
func (s *Sched) blockPipeCtx(p *pipe, done <-chan struct{}) {
	me := s.me()
	me.ckind = cPipeReadOrCancel
	me.cpipe = p
	me.cdone = done
	s.yield(me, "cat-read")
	me.ckind = cNone
	me.cpipe = nil
	me.cdone = nil
}

//go:norace
func (p *pipe) readable() bool { return len(p.buf) > 0 || p.wclosed || p.rclosed || p.deadline }

// ---- modelled FIFOs (process substitution) ----

type fifo struct {
	path    string
	p       *pipe
	ropen   int
	wopen   int
	removed bool
}

// Mkfifo replaces mkfifo(path, mode): under the scheduler the FIFO exists only
// in the model.
func Mkfifo(path string, mode uint32, real func(string, uint32) error) error {
	s := active
	if s == nil {
		return real(path, mode)
	}
	return s.mkfifo(path)
}

//go:norace
func (s *Sched) mkfifo(path string) error {
	for _, f := range s.fifos {
		if f.path == path && !f.removed {
			return os.ErrExist
		}
	}
	s.fifos = append(s.fifos, &fifo{path: path, p: &pipe{cap: s.PipeCap}})
	return nil
}

//go:norace
func (s *Sched) findFifo(path string) *fifo {
	for _, f := range s.fifos {
		if f.path == path && !f.removed {
			return f
		}
	}
	return nil
}

// OpenFile replaces os.OpenFile in the instrumented interp: paths of modelled
// FIFOs rendezvous like real FIFOs, anything else goes to the OS.
func OpenFile(path string, flag int, perm os.FileMode) (File, error) {
	s := active
	if s != nil {
		if f := s.findFifo(path); f != nil {
			side := 0
			if flag&(os.O_WRONLY|os.O_RDWR) != 0 {
				side = 1
			}
			s.fifoOpen(f, side)
			if side == 1 {
				return &PipeWriter{f.p}, nil
			}
			return &PipeReader{f.p}, nil
		}
	}
	f, err := os.OpenFile(path, flag, perm)
	if err != nil {
		return nil, err
	}
	return f, nil
}

// IsFifo reports whether path is a modelled FIFO (for the harness' handlers).
//
//go:norace
func IsFifo(path string) bool {
	s := active
	return s != nil && s.findFifo(path) != nil
}

//go:norace
func (s *Sched) fifoOpen(f *fifo, side int) {
	if side == 0 {
		f.ropen++
	} else {
		f.wopen++
	}
	me := s.me()
	me.ckind = cFifoOpen
	me.cfifo = f
	me.cside = side
	label := "fifo-open-r"
	if side == 1 {
		label = "fifo-open-w"
	}
	s.yield(me, label)
	me.ckind = cNone
	me.cfifo = nil
}

// Remove replaces os.Remove for FIFO paths.
func Remove(path string) error {
	s := active
	if s != nil {
		if s.removeFifo(path) {
			return nil
		}
	}
	return os.Remove(path)
}

//go:norace
func (s *Sched) removeFifo(path string) bool {
	if f := s.findFifo(path); f != nil {
		f.removed = true
		return true
	}
	return false
}

// ---- harness helpers ----

// Sink is an output collector that several threads may write to, like a file
// descriptor: writes are atomic and ordered by the schedule, and (like a real
// descriptor) every write is a release on the global I/O word.
type Sink struct {
	buf []byte
}

func (k *Sink) Write(b []byte) (int, error) {
	raceReleaseMerge(&ioSync)
	k.write(b)
	return len(b), nil
}

//go:norace
func (k *Sink) write(b []byte) {
	for _, c := range b {
		k.buf = append(k.buf, c)
	}
}

//go:norace
func (k *Sink) String() string {
	out := make([]byte, 0, len(k.buf))
	for _, c := range k.buf {
		out = append(out, c)
	}
	return string(out)
}

// Snapshot copies the outcome fields for the explorer.
//
//go:norace
func (s *Sched) Snapshot() (recs []Rec, points int, deadlock, diverged, horizon bool, blocked []string, cancelPoint, mainDone int) {
	return s.Recs, s.points, s.Deadlock, s.Diverged, s.Horizon, s.Blocked, s.CancelPoint, s.MainDonePoint
}
