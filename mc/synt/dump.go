// Package synt holds what the syntax-tree checks share: the canonical tree
// dump, the corpus extracted from the repository's own test tables, the
// grammar-based program enumerator and the printer configuration space.
package synt

import (
	"bytes"
	"fmt"
	"reflect"
	"strings"

	"mvdan.cc/sh/v3/syntax"
)

// DumpOpts selects what the canonical dump includes.
type DumpOpts struct {
	Positions bool // include every Pos (offset:line:col)
	Comments  bool // include Comment nodes
	// Cosmetic applies exactly the rewrites the printer documents, so that a
	// tree and its printed-and-reparsed form compare equal: backquotes,
	// $[ ], brace-style loops, <<- tab stripping, and (when Minify is set)
	// ${x} -> $x.
	Cosmetic bool
	Minify   bool
}

var (
	posType     = reflect.TypeOf(syntax.Pos{})
	commentType = reflect.TypeOf(syntax.Comment{})
)

// Dump returns a deterministic textual form of the tree under n.
func Dump(n any, o DumpOpts) string {
	var b bytes.Buffer
	d := dumper{o: o, b: &b}
	d.val(reflect.ValueOf(n), "")
	return b.String()
}

type dumper struct {
	o DumpOpts
	b *bytes.Buffer
	// dashHdoc is set while dumping the Hdoc word of a <<- redirect
	dashHdoc bool
	inHdoc   bool
}

func (d *dumper) val(v reflect.Value, field string) {
	switch v.Kind() {
	case reflect.Interface, reflect.Pointer:
		if v.IsNil() {
			d.b.WriteString("nil")
			return
		}
		d.val(v.Elem(), field)
	case reflect.Slice:
		if v.Type().Elem() == commentType && !d.o.Comments {
			d.b.WriteString("[]")
			return
		}
		d.b.WriteByte('[')
		if d.o.Cosmetic && v.Type().Elem().Kind() == reflect.Interface && v.Type().Elem().Name() == "WordPart" {
			d.wordParts(v)
		} else {
			for i := 0; i < v.Len(); i++ {
				if i > 0 {
					d.b.WriteByte(' ')
				}
				d.val(v.Index(i), field)
			}
		}
		d.b.WriteByte(']')
	case reflect.Struct:
		t := v.Type()
		if t == posType {
			p := v.Interface().(syntax.Pos)
			if d.o.Positions {
				if p.IsValid() {
					fmt.Fprintf(d.b, "%d:%d:%d", p.Offset(), p.Line(), p.Col())
				} else if p.IsRecovered() {
					d.b.WriteString("recovered")
				} else {
					d.b.WriteString("-")
				}
			}
			return
		}
		d.b.WriteString(t.Name())
		d.b.WriteByte('{')
		first := true
		for i := 0; i < t.NumField(); i++ {
			f := t.Field(i)
			if !f.IsExported() {
				continue
			}
			fv := v.Field(i)
			if f.Type == posType && !d.o.Positions {
				continue
			}
			if d.o.Cosmetic {
				switch {
				case t.Name() == "CmdSubst" && f.Name == "Backquotes",
					t.Name() == "ArithmExp" && f.Name == "Bracket",
					t.Name() == "ForClause" && f.Name == "Braces",
					t.Name() == "CaseClause" && f.Name == "Braces":
					continue
				case t.Name() == "ParamExp" && f.Name == "Short" && d.o.Minify:
					continue
				}
			}
			if !first {
				d.b.WriteByte(' ')
			}
			first = false
			d.b.WriteString(f.Name)
			d.b.WriteByte(':')
			if d.o.Cosmetic && t.Name() == "Redirect" && f.Name == "Hdoc" {
				op := v.FieldByName("Op").Interface().(syntax.RedirOperator)
				if w, _ := fv.Interface().(*syntax.Word); w == nil || emptyHdoc(w) {
					d.b.WriteString("nil") // an empty body and no body are the same
					continue
				}
				d.dashHdoc = op == syntax.DashHdoc
				d.inHdoc = true
				d.val(fv, f.Name)
				d.dashHdoc, d.inHdoc = false, false
				continue
			}
			d.val(fv, f.Name)
		}
		d.b.WriteByte('}')
	case reflect.String:
		s := v.String()
		if d.o.Cosmetic && field == "Value" {
			s = doubleTrailingBackslash(s)
		}
		fmt.Fprintf(d.b, "%q", s)
	case reflect.Bool:
		if v.Bool() {
			d.b.WriteString("true")
		} else {
			d.b.WriteString("false")
		}
	case reflect.Int, reflect.Int8, reflect.Int16, reflect.Int32, reflect.Int64:
		fmt.Fprintf(d.b, "%d", v.Int())
	case reflect.Uint, reflect.Uint8, reflect.Uint16, reflect.Uint32, reflect.Uint64:
		fmt.Fprintf(d.b, "%d", v.Uint())
	default:
		fmt.Fprintf(d.b, "?%s", v.Kind())
	}
}

// wordParts dumps a []WordPart with the cosmetic normalisation of adjacent
// literals: the lexer splits a literal at an escaped newline in some
// contexts, and the printer joins them again; also <<- body tabs.
func (d *dumper) wordParts(v reflect.Value) {
	var pendingLit strings.Builder
	havePending := false
	n := 0
	flush := func() {
		if !havePending {
			return
		}
		// escaped newlines are a documented cosmetic difference
		s := doubleTrailingBackslash(strings.ReplaceAll(pendingLit.String(), "\\\n", ""))
		if d.dashHdoc {
			s = stripLeadingTabs(s)
		}
		pendingLit.Reset()
		havePending = false
		if s == "" && d.inHdoc {
			return // an empty literal in a here-document body carries nothing
		}
		if n > 0 {
			d.b.WriteByte(' ')
		}
		n++
		fmt.Fprintf(d.b, "Lit{Value:%q}", s)
	}
	for i := 0; i < v.Len(); i++ {
		e := v.Index(i)
		if lit, ok := e.Interface().(*syntax.Lit); ok && !d.o.Positions {
			pendingLit.WriteString(lit.Value)
			havePending = true
			continue
		}
		flush()
		if n > 0 {
			d.b.WriteByte(' ')
		}
		n++
		d.val(e, "")
	}
	flush()
}

func stripLeadingTabs(s string) string {
	lines := strings.Split(s, "\n")
	for i, l := range lines {
		lines[i] = strings.TrimLeft(l, "\t")
	}
	return strings.Join(lines, "\n")
}

// doubleTrailingBackslash applies the printer's documented rewrite of a
// literal ending in an odd number of backslashes (only possible at the end of
// the input): the last one is doubled.
func doubleTrailingBackslash(s string) string {
	n := len(s) - len(strings.TrimRight(s, "\\"))
	if n%2 == 1 {
		return s + "\\"
	}
	return s
}

func emptyHdoc(w *syntax.Word) bool {
	for _, p := range w.Parts {
		lit, ok := p.(*syntax.Lit)
		if !ok || strings.Trim(lit.Value, "\t") != "" {
			return false
		}
	}
	return true
}
