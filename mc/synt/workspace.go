package synt

import (
	"bytes"
	"strings"
	"sync"

	"mvdan.cc/sh/v3/syntax"
)

// Workspace caches parsers and printers for one worker goroutine: creating
// them dominates the cost of small cases. Reuse being equivalent to fresh
// instances is itself property C08.
type Workspace struct {
	printers map[Config]*syntax.Printer
	parsers  map[syntax.LangVariant]*syntax.Parser
	buf      bytes.Buffer
}

var wsPool = sync.Pool{New: func() any {
	return &Workspace{printers: map[Config]*syntax.Printer{}, parsers: map[syntax.LangVariant]*syntax.Parser{}}
}}

func GetWorkspace() *Workspace   { return wsPool.Get().(*Workspace) }
func PutWorkspace(w *Workspace)  { wsPool.Put(w) }

// Print prints n with configuration c using a cached printer.
func (w *Workspace) Print(c Config, n syntax.Node) (string, error) {
	p := w.printers[c]
	if p == nil {
		p = c.Printer()
		w.printers[c] = p
	}
	w.buf.Reset()
	err := p.Print(&w.buf, n)
	return w.buf.String(), err
}

// Parse parses src in the variant, keeping comments, with a cached parser.
func (w *Workspace) Parse(src string, lang syntax.LangVariant) (*syntax.File, error) {
	p := w.parsers[lang]
	if p == nil {
		p = syntax.NewParser(syntax.Variant(lang), syntax.KeepComments(true))
		w.parsers[lang] = p
	}
	return p.Parse(strings.NewReader(src), "")
}

// Drop forgets the cached parser/printers (after a panic left them in an
// unknown state).
func (w *Workspace) Drop() {
	w.printers = map[Config]*syntax.Printer{}
	w.parsers = map[syntax.LangVariant]*syntax.Parser{}
}
