package synt

import (
	"go/ast"
	"go/parser"
	"go/token"
	"os"
	"path/filepath"
	"sort"
	"strconv"
	"strings"

	"mvdan.cc/sh/v3/syntax"
)

// RepoRoot is where the code under test lives.
const RepoRoot = "/repo"

// Corpus returns every distinct string literal of the given Go test files of
// the working tree (so the corpus follows the tree), shortest first.
func Corpus(globs ...string) []string {
	seen := map[string]bool{}
	var out []string
	for _, g := range globs {
		files, _ := filepath.Glob(filepath.Join(RepoRoot, g))
		sort.Strings(files)
		for _, f := range files {
			src, err := os.ReadFile(f)
			if err != nil {
				continue
			}
			fset := token.NewFileSet()
			af, err := parser.ParseFile(fset, f, src, parser.SkipObjectResolution)
			if err != nil {
				continue
			}
			ast.Inspect(af, func(n ast.Node) bool {
				bl, ok := n.(*ast.BasicLit)
				if !ok || bl.Kind != token.STRING {
					return true
				}
				s, err := strconv.Unquote(bl.Value)
				if err != nil || s == "" || len(s) > 400 || seen[s] {
					return true
				}
				seen[s] = true
				out = append(out, s)
				return true
			})
		}
	}
	sort.SliceStable(out, func(i, j int) bool {
		if len(out[i]) != len(out[j]) {
			return len(out[i]) < len(out[j])
		}
		return out[i] < out[j]
	})
	return out
}

// SyntaxCorpus is the corpus of shell sources used by the syntax checks.
func SyntaxCorpus() []string {
	return Corpus("syntax/filetests_test.go", "syntax/printer_test.go", "syntax/parser_test.go", "syntax/simplify_test.go", "syntax/walk_test.go")
}

// InterpCorpus is the corpus of runnable programs from the interpreter tests.
func InterpCorpus() []string {
	return Corpus("interp/interp_test.go")
}

// Variants lists the language variants with their names.
var Variants = []struct {
	Name string
	Lang syntax.LangVariant
}{
	{"bash", syntax.LangBash},
	{"posix", syntax.LangPOSIX},
	{"mksh", syntax.LangMirBSDKorn},
	{"bats", syntax.LangBats},
	{"zsh", syntax.LangZsh},
}

func LangByName(name string) syntax.LangVariant {
	for _, v := range Variants {
		if v.Name == name {
			return v.Lang
		}
	}
	return syntax.LangBash
}

// Parse parses src as a file in the given variant, keeping comments.
func Parse(src string, lang syntax.LangVariant) (*syntax.File, error) {
	return syntax.NewParser(syntax.Variant(lang), syntax.KeepComments(true)).Parse(strings.NewReader(src), "")
}
