package synt

import (
	"bytes"
	"fmt"
	"strings"

	"mvdan.cc/sh/v3/syntax"
)

// Config is one printer configuration.
type Config struct {
	Indent   uint `json:"indent"`
	BinNext  bool `json:"bn,omitempty"`
	CaseInd  bool `json:"ci,omitempty"`
	SpaceRed bool `json:"sr,omitempty"`
	KeepPad  bool `json:"kp,omitempty"`
	FuncNext bool `json:"fn,omitempty"`
	Minify   bool `json:"mn,omitempty"`
	Single   bool `json:"sl,omitempty"`
}

func (c Config) String() string {
	var parts []string
	parts = append(parts, fmt.Sprintf("i%d", c.Indent))
	for _, f := range []struct {
		on   bool
		name string
	}{{c.BinNext, "bn"}, {c.CaseInd, "ci"}, {c.SpaceRed, "sr"}, {c.KeepPad, "kp"}, {c.FuncNext, "fn"}, {c.Minify, "mn"}, {c.Single, "sl"}} {
		if f.on {
			parts = append(parts, f.name)
		}
	}
	return strings.Join(parts, ",")
}

func (c Config) Printer() *syntax.Printer {
	return syntax.NewPrinter(
		syntax.Indent(c.Indent),
		syntax.BinaryNextLine(c.BinNext),
		syntax.SwitchCaseIndent(c.CaseInd),
		syntax.SpaceRedirects(c.SpaceRed),
		syntax.KeepPadding(c.KeepPad),
		syntax.FunctionNextLine(c.FuncNext),
		syntax.Minify(c.Minify),
		syntax.SingleLine(c.Single),
	)
}

// Print prints n with configuration c.
func (c Config) Print(n syntax.Node) (string, error) {
	var buf bytes.Buffer
	err := c.Printer().Print(&buf, n)
	return buf.String(), err
}

// Configs enumerates printer configurations: every subset of the seven
// boolean options crossed with the given indents. keepPadding=false removes
// the deprecated KeepPadding dimension.
func Configs(indents []uint, keepPadding bool) []Config {
	var out []Config
	for _, ind := range indents {
		for m := 0; m < 128; m++ {
			c := Config{Indent: ind, BinNext: m&1 != 0, CaseInd: m&2 != 0, SpaceRed: m&4 != 0, KeepPad: m&8 != 0, FuncNext: m&16 != 0, Minify: m&32 != 0, Single: m&64 != 0}
			if c.KeepPad && !keepPadding {
				continue
			}
			out = append(out, c)
		}
	}
	return out
}
