package synt

import (
	"sort"
	"strings"
)

// The grammar is a set of templates per non-terminal. Holes are {S} (one
// statement), {W} (a word), {P} (text inside double quotes), {A} (an
// arithmetic expression), {T} (a [[ ]] expression). Layout markers:
//
//	·  gap inside a simple command / between tokens      (default " ")
//	¶  statement terminator before the next stmt/keyword (default "; ")
//	¤  gap after an opening keyword or brace             (default " ")
//	⟦…⟧ a here-document body, emitted after the next newline
//	↵  flush point: pending here-doc bodies are emitted here (with a newline)
//
// Programs are produced for the union of all language variants; each check
// keeps, per variant, the ones that parse.
var productions = map[string][]string{
	"S": {
		// simple commands, assignments, redirections
		"a", "a·b", "a=1", "a=", "a=1·b=2·c", "a=(1·2)", "a+=(x)", "a+=x", "a[1]=x", "a=([k]=v·[j]=w)", "a=()",
		">f", "a·>f·2>&1", "a·<f·>>g", "a·&>f", "a·&>>f", "a·<>f", "a·>|f", "a·<&0", "a·>&-", "a·<<<w", "{fd}>f", "a·2>f·b", "3>&1·a",
		"a·<<E⟦body·$x\nE\n⟧", "a·<<-E⟦\tbody\n\tE\n⟧", "a·<<'E'⟦body·$x\nE\n⟧", "a·<<E·b·<<F⟦one\nE\ntwo\nF\n⟧", "a·<<E·|·b⟦body\nE\n⟧", "a·<<E⟦E\n⟧",
		"echo·{W}", "echo·{W}·{W}", "{W}", "{W}·x", "a={W}", "a={W}·cmd", "a[{A}]={W}", "a=({W}·[2]={W})", "echo·>{W}", "echo·<<<{W}", "a·<<E⟦x·{P}·y\nE\n⟧",
		// compound commands
		"{¤{S}¶}", "(¤{S}↵)", "(¤{S}¶{S}↵)", "{¤{S}¶{S}¶}",
		"if¤{S}¶then¤{S}¶fi", "if¤{S}¶then¤{S}¶else¤{S}¶fi", "if¤{S}¶then¤{S}¶elif¤{S}¶then¤{S}¶fi", "if¤{S}¶then¤{S}¶elif¤{S}¶then¤{S}¶else¤{S}¶fi",
		"while¤{S}¶do¤{S}¶done", "until¤{S}¶do¤{S}¶done",
		"for·i·in·{W}·b¶do¤{S}¶done", "for·i¶do¤{S}¶done", "for·i·in¶do¤{S}¶done", "for·((i=0;·i<3;·i++))¶do¤{S}¶done", "for·((;;))¶do¤{S}¶done", "for·(({A};·{A};·{A}))¶do¤{S}¶done",
		"select·i·in·{W}¶do¤{S}¶done",
		"case·{W}·in¤a)¤{S}·;;¤esac", "case·x·in¤a|b)¤{S}·;&¤c)¤{S}·;;&¤*)¤{S}¤esac", "case·x·in¤(a)¤{S}·;;¤esac", "case·x·in¤esac", "case·x·in¤{W})¤;;¤esac", "case·x·in¤a)¤{S}¶{S}·;;¤b)¤esac",
		"f()·{¤{S}¶}", "function·f·{¤{S}¶}", "function·f()·{¤{S}¶}", "f()·(¤{S}↵)", "f()·if¤{S}¶then¤{S}¶fi", "f()·{¤{S}¶}·>f",
		"{S}·&&·{S}", "{S}·||·{S}", "{S}·|·{S}", "{S}·|&·{S}", "!·{S}", "{S}·&", "{S}·&&¤{S}", "{S}·|¤{S}", "{S}·&&·{S}·||·{S}", "{S}·|·{S}·|·{S}",
		"time·{S}", "time·-p·{S}", "time", "coproc·{S}", "coproc·n·{¤{S}¶}",
		"[[·{T}·]]", "((·{A}·))", "let·i++·j=2", "let·{A}",
		"declare·-a·a=(1·2)·b", "declare·x={W}", "local·x={W}", "export·x=1", "readonly·x", "typeset·-i·n", "declare·-A·m=([k]=v)", "nameref·r=x", "declare", "export·-p",
		"{¤{S}¶}·>f·2>&1", "(¤{S}↵)·<f", "if¤{S}¶then¤{S}¶fi·>f", "while¤{S}¶do¤{S}¶done·<f", "{¤{S}¶}·&", "(¤{S}↵)·|·a",
		"@test·\"d\"·{¤{S}¶}", "@test·'d·e'·{¤{S}¶}",
		// mksh / zsh forms
		"for·i·(a·b)·{¤{S}¶}", "for·i·in·a;·{¤{S}¶}", "function·f·{¤{S}¶}·>f", "a·|&", "a·&|", "a·&!", "repeat·3·{¤{S}¶}", "if·[[·a·]]·{¤{S}¶}", "while·[[·a·]]·{¤{S}¶}",
		"echo·${|a;}", "echo·$(<f)", "echo·${·a;}",
		"[·{W}·=·b·]", "test·-n·{W}", "break·2", "return·1", "exit", "eval·{W}", "trap·'a'·EXIT", "set·--·{W}", ":", "a·--·-x·+y",
	},
	"W": {
		"w", "'s·q'", "\"d·q\"", "''", "\"\"", "$x", "${x}", "$1", "${10}", "$@", "\"$@\"", "$*", "$?", "$#", "$$", "$!", "$-", "$_", "${#x}", "${#}", "${#@}",
		"${x:-d}", "${x:=d}", "${x:?e}", "${x:+a}", "${x-d}", "${x=d}", "${x?e}", "${x+a}", "${x:-}", "${x#p}", "${x##p}", "${x%p}", "${x%%p}",
		"${x/p/r}", "${x//p/r}", "${x/#p/r}", "${x/%p/r}", "${x/p}", "${x//p}", "${x:1}", "${x:1:2}", "${x:·-1}", "${x::2}", "${x^}", "${x^^}", "${x,}", "${x,,}", "${x^^[ab]}",
		"${x@Q}", "${x@E}", "${x@a}", "${!x}", "${!x[@]}", "${!x[*]}", "${!x*}", "${!x@}", "${x[1]}", "${x[@]}", "${x[*]}", "${#x[@]}", "${x[k]:-d}", "${x[@]:1:2}", "${x[-1]}", "${@:2}", "${*:1:1}",
		"$'a\\nb'", "$'\\x41\\''", "$\"loc\"", "$(a)", "$(a·b)", "`a`", "`a·b`", "$((1+2))", "$[1+2]", "$((·x·))", "<(a)", ">(a)", "$()", "``",
		"@(a|b)", "?(a)", "*(a)", "+(a)", "!(a)", "a*b?[c]", "[!a]", "[[:alpha:]]", "~", "~/x", "~u/x", "{a,b}", "{1..3}", "a\\·b", "a\\\\", "é", "\\é",
		"\"$x\"", "\"${x}y\"", "\"a$(b)c\"", "\"a`b`c\"", "x$y'z'\"w\"", "--flag=val", "a=b", "1", "$", "\"$\"", "\\$x", "\"\\$x\"", "\"a\\\"b\"", "a#b", "\"a·#·b\"", "\"`a·\\`b\\``\"", "`a·\\`b\\``", "`a·\"b\"`", "\"$(a·\"b\")\"",
		"${x:-\"d·e\"}", "\"${x:-'d'}\"", "${x#\"p\"}", "${x/\\//r}", "\"${x/a/'b'}\"", "${x:-$y}", "${x:-${y:-z}}", "$((x+$y))", "\"$((x+1))\"",
		// zsh / mksh only
		"${(U)x}", "${x:u}", "${#x:-d}", "${+x}", "${x:#p}", "${x[1,2]}", "${x[(r)p]}", "$x[1]", "${${x}}", "${~x}", "${=x}", "${^x}", "<->", "<1-3>", "*(.)", "a(b|c)", "^a", "a~b", "${|a;}", "${·a;}",
		// contexts
		"\"{P}\"", "x{W}", "{W}x", "$\"{P}\"", "${x:-{W}}", "${x:={W}}", "${x#{W}}", "${x%%{W}}", "${x/{W}/{W}}", "${x//{W}/{W}}", "${x:{A}:{A}}", "${x:{A}}", "${x[{A}]}", "${x[{A}]:-{W}}",
		"$({S}↵)", "`{S}`", "$(({A}))", "$[{A}]", "<({S}↵)", ">({S}↵)", "\"a{P}b\"", "\"$({S}↵)\"", "\"${x:-{W}}\"", "$(¤{S}¶{S}↵)", "$(·{S}·)",
	},
	"P": {
		"t·x", "$x", "${x}", "${x:-d}", "$(a)", "`a`", "$((1))", "\\\"", "\\\\", "\\$", "'", "é", "\\`", "a\\\nb", "$", "#", "~", "*", "{a,b}", "\\n", "!", "$'a'", "\\'",
		"${x:-{W}}", "$({S}↵)", "$(({A}))", "`{S}`", "{P}{P}",
	},
	"A": {
		"1", "x", "$x", "${x}", "x+1", "x·+·1", "x=1", "x+=2", "x++", "++x", "x--", "--x", "-x", "+x", "!x", "~x", "x?1:2", "x,y", "x**2", "x<<1", "x>>1", "x<y", "x<=y", "x>y", "x>=y", "x&&y", "x||y", "x==y", "x!=y", "x&y", "x|y", "x^y", "x%y", "x/y", "x*y", "x-y",
		"x*=2", "x/=2", "x%=2", "x-=2", "x<<=2", "x>>=2", "x&=2", "x|=2", "x^=2", "a[1]", "a[1]=2", "a[1]++", "$(a)", "$((1))", "16#ff", "0x1F", "010", "\"1\"", "$#", "$1", "${#x}", "x·?·y·:·z", "(x)", "1·<·2", "x·=·1",
		"{A}+{A}", "{A}*{A}", "({A})", "x+={A}", "-{A}", "!{A}", "{A}?{A}:{A}", "{A},{A}", "a[{A}]", "{A}·&&·{A}", "{A}·<·{A}", "x=({A})", "{A}**{A}", "({A})*{A}", "{A}-{A}-{A}",
	},
	"T": {
		"a", "-n·a", "-z·a", "-f·f", "-d·f", "a·==·b", "a·!=·p*", "a·=~·^a.*$", "a·=~·(a|b)", "a·<·b", "a·>·b", "a·-eq·1", "a·-ne·1", "a·-lt·1", "a·-nt·b", "a·-ot·b", "a·-ef·b", "-v·x", "-o·errexit", "a·=·b", "-R·x", "!·a", "a·=~·a\\·b", "a·==·@(a|b)", "a·=~·[a]",
		"{W}", "-n·{W}", "-z·{W}", "{W}·==·{W}", "{W}·!=·{W}", "{W}·=~·{W}", "{W}·<·{W}", "!·{T}", "{T}·&&·{T}", "{T}·||·{T}", "(·{T}·)", "{W}·=·{W}", "{W}·-eq·{W}", "!·(·{T}·)", "{T}·&&¤{T}",
	},
}

// defaults are the atoms used for holes that are not being explored.
var defaults = map[string]string{"S": "a", "W": "w", "P": "t", "A": "1", "T": "a"}

// coreContexts are the S templates that depth-2 nesting is restricted to in
// the quick tier (one per family of printer logic).
var coreContexts = map[string]bool{
	"{¤{S}¶}": true, "(¤{S}↵)": true, "if¤{S}¶then¤{S}¶else¤{S}¶fi": true, "while¤{S}¶do¤{S}¶done": true,
	"case·{W}·in¤a)¤{S}·;;¤esac": true, "f()·{¤{S}¶}": true, "{S}·&&·{S}": true, "{S}·|·{S}": true, "{S}·&": true,
	"echo·{W}": true, "a={W}": true, "echo·<<<{W}": true,
	"\"{P}\"": true, "x{W}": true, "${x:-{W}}": true, "$({S}↵)": true, "`{S}`": true, "$(({A}))": true, "<({S}↵)": true,
	"${x:-{W}}P": true, "$({S}↵)P": true,
	"{A}+{A}": true, "({A})": true, "a[{A}]": true,
	"{T}·&&·{T}": true, "!·{T}": true, "{W}·==·{W}": true,
	"[[·{T}·]]": true, "((·{A}·))": true, "for·i·in·{W}·b¶do¤{S}¶done": true, "a·<<E⟦x·{P}·y\nE\n⟧": true,
}

type holeRef struct {
	start, end int
	nt         string
}

func holes(t string) []holeRef {
	var out []holeRef
	for i := 0; i+2 < len(t); i++ {
		if t[i] == '{' && t[i+2] == '}' && strings.ContainsRune("SWPAT", rune(t[i+1])) {
			out = append(out, holeRef{i, i + 3, string(t[i+1])})
		}
	}
	return out
}

// Templates returns all template expansions (still containing layout
// markers) of non-terminal nt up to the given nesting depth. At each template
// one hole at a time is explored with the full set of depth-1 expansions
// while the others hold their default atom. With coreOnly, expansions below
// the top level (depth >= 2) only go through the core contexts.
func Templates(nt string, depth int, coreOnly bool) []string {
	memo := map[string][]string{}
	var gen func(nt string, d int, top bool) []string
	gen = func(nt string, d int, top bool) []string {
		key := nt + string(rune('0'+d))
		if top {
			key += "T"
		}
		if r, ok := memo[key]; ok {
			return r
		}
		seen := map[string]bool{}
		var out []string
		add := func(s string) {
			if !seen[s] {
				seen[s] = true
				out = append(out, s)
			}
		}
		for _, t := range productions[nt] {
			hs := holes(t)
			if len(hs) == 0 {
				add(t)
				continue
			}
			if d == 0 {
				continue
			}
			if coreOnly && !top && !coreContexts[t] && !coreContexts[t+nt] {
				continue // below the top level only core contexts nest further
			}
			for hi := range hs {
				subs := gen(hs[hi].nt, d-1, false)
				for _, sub := range subs {
					var sb strings.Builder
					last := 0
					for hj, h := range hs {
						sb.WriteString(t[last:h.start])
						if hj == hi {
							sb.WriteString(sub)
						} else {
							sb.WriteString(defaults[h.nt])
						}
						last = h.end
					}
					sb.WriteString(t[last:])
					add(sb.String())
				}
			}
		}
		memo[key] = out
		return out
	}
	res := gen(nt, depth, true)
	sort.SliceStable(res, func(i, j int) bool { return len(res[i]) < len(res[j]) })
	return res
}

// Gap alternatives.
var (
	inlineAlts = []string{"  ", "\t", " \\\n"}
	termAlts   = []string{"\n", "\n\n", " # c1\n", "\n# c2\n", ";\n"}
	openAlts   = []string{"\n", " # c3\n", "\n\n", "\n# c4\n"}
)

// Render turns a template into source text. gap selects the index of the
// one layout marker that takes alternative alt (0-based into its list); use
// gap = -1 for the default layout. It returns the text and the number of gaps.
func Render(t string, gap, alt int) (string, int) {
	var sb strings.Builder
	var pending []string
	flushPending := func() {
		for _, b := range pending {
			sb.WriteString(b)
		}
		pending = nil
	}
	write := func(s string) {
		for len(s) > 0 {
			i := strings.IndexByte(s, '\n')
			if i < 0 || len(pending) == 0 {
				sb.WriteString(s)
				return
			}
			sb.WriteString(s[:i+1])
			flushPending()
			s = s[i+1:]
		}
	}
	n := 0
	rs := []rune(t)
	for i := 0; i < len(rs); i++ {
		r := rs[i]
		var def string
		var alts []string
		switch r {
		case '·':
			def, alts = " ", inlineAlts
		case '¶':
			def, alts = "; ", termAlts
		case '¤':
			def, alts = " ", openAlts
		case '⟦':
			j := i + 1
			depth := 1
			for ; j < len(rs); j++ {
				if rs[j] == '⟦' {
					depth++
				} else if rs[j] == '⟧' {
					depth--
					if depth == 0 {
						break
					}
				}
			}
			body, _ := Render(string(rs[i+1:j]), -1, 0)
			pending = append(pending, body)
			i = j
			continue
		case '↵':
			if len(pending) > 0 {
				write("\n")
			}
			continue
		default:
			write(string(r))
			continue
		}
		s := def
		if n == gap && alt < len(alts) {
			s = alts[alt]
		}
		n++
		// "a &; b" is not valid shell; a background statement is its own terminator
		if r == '¶' && strings.HasPrefix(s, ";") {
			cur := strings.TrimRight(sb.String(), " ")
			if strings.HasSuffix(cur, "&") && !strings.HasSuffix(cur, "&&") {
				s = strings.TrimPrefix(s, ";")
				if s == "" || s == " " {
					s = " "
				}
			}
		}
		write(s)
	}
	if len(pending) > 0 {
		write("\n")
	}
	return sb.String(), n
}

// GapAlts returns how many alternatives gap i of template t has.
func GapAlts(t string) []int {
	var out []int
	inBody := 0
	for _, r := range t {
		switch r {
		case '⟦':
			inBody++
		case '⟧':
			inBody--
		case '·':
			if inBody == 0 {
				out = append(out, len(inlineAlts))
			}
		case '¶':
			if inBody == 0 {
				out = append(out, len(termAlts))
			}
		case '¤':
			if inBody == 0 {
				out = append(out, len(openAlts))
			}
		}
	}
	return out
}

// Source is one enumerated program.
type Source struct {
	Template string
	Gap, Alt int // Gap = -1 for the default layout
	Text     string
}

// Sources enumerates programs: every template of the statement grammar up to
// depth in its default layout, and every single-gap layout deviation of the
// templates up to layoutDepth.
func Sources(depth int, coreOnly bool, layoutDepth int, f func(Source)) {
	layoutSet := map[string]bool{}
	if layoutDepth >= 0 {
		for _, t := range Templates("S", layoutDepth, coreOnly) {
			layoutSet[t] = true
		}
	}
	for _, t := range Templates("S", depth, coreOnly) {
		text, _ := Render(t, -1, 0)
		f(Source{t, -1, 0, text})
		if !layoutSet[t] {
			continue
		}
		for gi, na := range GapAlts(t) {
			for a := 0; a < na; a++ {
				text, _ := Render(t, gi, a)
				f(Source{t, gi, a, text})
			}
		}
	}
}

// NumProductions is the number of templates in the grammar.
func NumProductions() int {
	n := 0
	for _, p := range productions {
		n += len(p)
	}
	return n
}

// gapKinds returns the marker rune of each gap of t, in order.
func gapKinds(t string) []rune {
	var out []rune
	inBody := 0
	for _, r := range t {
		switch r {
		case '⟦':
			inBody++
		case '⟧':
			inBody--
		case '·', '¶', '¤':
			if inBody == 0 {
				out = append(out, r)
			}
		}
	}
	return out
}

// CommentAlts returns the alternative indexes of gap g of t that insert a
// comment.
func CommentAlts(t string, g int) []int {
	kinds := gapKinds(t)
	if g >= len(kinds) {
		return nil
	}
	var alts []string
	switch kinds[g] {
	case '¶':
		alts = termAlts
	case '¤':
		alts = openAlts
	default:
		return nil
	}
	var out []int
	for i, a := range alts {
		if strings.Contains(a, "#") {
			out = append(out, i)
		}
	}
	return out
}

// Render2 renders t with two gaps deviating.
func Render2(t string, g1, a1, g2, a2 int) string {
	// render by substituting the second gap's marker text first: simplest is
	// to expand gap g2 into literal text and then call Render for g1 (g1<g2,
	// so g1's index is unaffected).
	kinds := gapKinds(t)
	var alts []string
	switch kinds[g2] {
	case '·':
		alts = inlineAlts
	case '¶':
		alts = termAlts
	case '¤':
		alts = openAlts
	}
	var sb strings.Builder
	n, inBody := 0, 0
	for _, r := range t {
		switch r {
		case '⟦':
			inBody++
		case '⟧':
			inBody--
		case '·', '¶', '¤':
			if inBody == 0 {
				if n == g2 {
					sb.WriteString(alts[a2])
					n++
					continue
				}
				n++
			}
		}
		sb.WriteRune(r)
	}
	s, _ := Render(sb.String(), g1, a1)
	return s
}
