package main

import "verif/mc/checks"

func main() { checks.C30DebugState(0, []int{24, 27}) }
