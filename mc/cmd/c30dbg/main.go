package main

import "verif/mc/checks"

func main() { checks.C30DebugState(0, []int{7, 11, 12, 15, 23, 24}) }
