package main

import (
	"flag"
	"fmt"
	"os"
	"runtime/pprof"
	"sort"

	"verif/mc/checks"
	"verif/mc/vc"
)

func main() {
	if len(os.Args) < 2 {
		usage()
	}
	id := os.Args[1]
	fs := flag.NewFlagSet("vcheck", flag.ExitOnError)
	tier := fs.String("tier", "quick", "quick|thorough")
	replay := fs.String("replay", "", "replay file")
	fs.Parse(os.Args[2:])
	if t := os.Getenv("VERIF_TIER"); t != "" && *tier == "" {
		*tier = t
	}
	fn := checks.Registry[id]
	if fn == nil {
		usage()
	}
	if pf := os.Getenv("VERIF_CPUPROFILE"); pf != "" {
		f, _ := os.Create(pf)
		pprof.StartCPUProfile(f)
		vc.AtExit = pprof.StopCPUProfile
	}
	c := vc.NewCtx(id, *tier)
	c.Replay = *replay
	fn(c)
	fmt.Fprintln(os.Stderr, "check did not call Finish")
	os.Exit(2)
}

func usage() {
	var ids []string
	for id := range checks.Registry {
		ids = append(ids, id)
	}
	sort.Strings(ids)
	fmt.Fprintf(os.Stderr, "usage: vcheck <id> [--tier quick|thorough] [--replay file]\nids: %v\n", ids)
	os.Exit(2)
}
