//go:build verif

// Command vsc explores, for a list of small concurrent shell programs, every
// goroutine interleaving of the real interpreter (instrumented at build time
// from /repo's working tree, see ../../instr) up to a preemption bound, with
// the Go race detector watching each execution.
//
//	vsc <C27|C31|C32> [--tier quick|thorough] [--replay file]   coordinator
//	vsc --worker                                                 one case slice: JSON on stdin -> JSON on stdout
package main

import (
	"bytes"
	"encoding/json"
	"flag"
	"fmt"
	"os"
	"os/exec"
	"path/filepath"
	"runtime"
	"sort"
	"strings"
	"sync"
	"time"

	"mvdan.cc/sh/v3/vsched"

	"verif/mc/vc"
)

func main() {
	if len(os.Args) >= 2 && os.Args[1] == "--worker" {
		worker()
		return
	}
	if len(os.Args) < 2 {
		fmt.Fprintln(os.Stderr, "usage: vsc <C27|C31|C32> [--tier quick|thorough] [--replay file]")
		os.Exit(2)
	}
	id := os.Args[1]
	fs := flag.NewFlagSet("vsc", flag.ExitOnError)
	tier := fs.String("tier", "quick", "quick|thorough")
	replay := fs.String("replay", "", "replay file")
	fs.Parse(os.Args[2:])
	c := vc.NewCtx(id, *tier)
	c.Replay = *replay
	var cases []Case
	switch id {
	case "C32":
		cases = casesC32(c)
	case "C31":
		cases = casesC31(c)
	case "C27":
		cases = casesC27(c)
	default:
		fmt.Fprintln(os.Stderr, "vsc: unknown property", id)
		os.Exit(2)
	}
	coordinate(c, cases)
}

func worker() {
	runtime.GOMAXPROCS(1)
	var err error
	scratch, err = os.MkdirTemp("", "vsc-")
	if err != nil {
		fmt.Fprintln(os.Stderr, err)
		os.Exit(2)
	}
	defer os.RemoveAll(scratch)
	if p := os.Getenv("VSC_RACELOG"); p != "" {
		raceLogPath = fmt.Sprintf("%s.%d", p, os.Getpid())
	}
	stopProf := startProfile()
	dec := json.NewDecoder(os.Stdin)
	enc := json.NewEncoder(os.Stdout)
	for {
		var cs Case
		if err := dec.Decode(&cs); err != nil {
			break
		}
		budget := time.Duration(cs.BudgetS) * time.Second
		if budget == 0 {
			budget = 60 * time.Second
		}
		res := explore(&cs, time.Now().Add(budget))
		// a process accumulates goroutines parked for ever (threads that were
		// still blocked when their execution ended); retire before the race
		// runtime's limit of 8128 live goroutines comes near
		res.Retire = vsched.LeakedTotal > 5000
		enc.Encode(res)
		if res.Retire {
			break
		}
	}
	stopProf()
	os.RemoveAll(scratch)
	if raceLogPath != "" {
		os.Remove(raceLogPath)
	}
}

// A proc is one persistent worker process; it handles one case slice at a
// time and is replaced when it retires or dies.
type proc struct {
	cmd *exec.Cmd
	in  *json.Encoder
	out *json.Decoder
	err *bytes.Buffer
	dir string
	w   interface{ Close() error }
}

var procPool = make(chan *proc, 256)

func startProc() (*proc, error) {
	self, err := os.Executable()
	if err != nil {
		return nil, err
	}
	dir, err := os.MkdirTemp("", "vsc-race-")
	if err != nil {
		return nil, err
	}
	cmd := exec.Command(self, "--worker")
	stdin, err := cmd.StdinPipe()
	if err != nil {
		return nil, err
	}
	stdout, err := cmd.StdoutPipe()
	if err != nil {
		return nil, err
	}
	p := &proc{cmd: cmd, in: json.NewEncoder(stdin), out: json.NewDecoder(stdout), err: new(bytes.Buffer), dir: dir, w: stdin}
	cmd.Stderr = p.err
	// suppress_equal_*=0: a race is reported again in every execution that
	// has it, so one process can judge many executions and cases
	cmd.Env = append(os.Environ(),
		"GORACE=log_path="+filepath.Join(dir, "race")+" halt_on_error=0 suppress_equal_stacks=0 suppress_equal_addresses=0",
		"VSC_RACELOG="+filepath.Join(dir, "race"),
		"GOMAXPROCS=1", "TMPDIR="+dir)
	if err := cmd.Start(); err != nil {
		return nil, err
	}
	return p, nil
}

func (p *proc) stop() {
	p.w.Close()
	p.cmd.Process.Kill()
	p.cmd.Wait()
	os.RemoveAll(p.dir)
}

func stopAllProcs() {
	for {
		select {
		case p := <-procPool:
			p.stop()
		default:
			return
		}
	}
}

// runWorker runs one slice of a case in a worker process.
func runWorker(cs *Case) (*Result, error) {
	var p *proc
	select {
	case p = <-procPool:
	default:
		var err error
		if p, err = startProc(); err != nil {
			return nil, err
		}
	}
	if err := p.in.Encode(cs); err != nil {
		p.stop()
		return nil, fmt.Errorf("worker write: %v\n%s", err, tail(p.err.String(), 4000))
	}
	var res Result
	if err := p.out.Decode(&res); err != nil {
		p.stop()
		return nil, fmt.Errorf("worker died: %v\n%s", err, tail(p.err.String(), 4000))
	}
	if res.Retire {
		p.stop()
	} else {
		select {
		case procPool <- p:
		default:
			p.stop()
		}
	}
	return &res, nil
}

func tail(s string, n int) string {
	if len(s) > n {
		return "…" + s[len(s)-n:]
	}
	return s
}

// caseResult accumulates the slices of one case.
type caseResult struct {
	Result
	slices int
}

func runCase(c *vc.Ctx, cs Case, perCase time.Duration) (*caseResult, error) {
	total := &caseResult{Result: Result{Outcomes: map[string]int{}, BoundCompleted: -1}}
	deadline := time.Now().Add(perCase)
	cur := cs
	for {
		left := time.Until(deadline)
		if left < 2*time.Second {
			left = 2 * time.Second
		}
		cur.BudgetS = int(left / time.Second)
		res, err := runWorker(&cur)
		if err != nil {
			return nil, fmt.Errorf("case %s [%s]: %w", cs.Name, oneLine(cs.Prog), err)
		}
		total.slices++
		total.Executions += res.Executions
		total.Points += res.Points
		total.MaxPoints = max(total.MaxPoints, res.MaxPoints)
		total.MaxThreads = max(total.MaxThreads, res.MaxThreads)
		for k, v := range res.Outcomes {
			total.Outcomes[k] += v
		}
		for _, v := range res.Violations {
			dup := false
			for _, w := range total.Violations {
				if w.Kind == v.Kind && w.Sig == v.Sig {
					dup = true
				}
			}
			if !dup {
				total.Violations = append(total.Violations, v)
			}
		}
		total.BoundCompleted = max(total.BoundCompleted, res.BoundCompleted)
		total.AtBound += res.AtBound
		total.CancelPoints = max(total.CancelPoints, res.CancelPoints)
		if res.Reference != "" {
			total.Reference = res.Reference
		}
		if res.Want != "" {
			total.Want = res.Want
		}
		if len(total.Sample) < 3 {
			total.Sample = append(total.Sample, res.Sample...)
		}
		if res.Error != "" {
			return nil, fmt.Errorf("case %s: %s", cs.Name, res.Error)
		}
		if len(res.Pending) == 0 {
			total.Exhaustive = res.Exhaustive
			return total, nil
		}
		if time.Now().After(deadline) || c.Expired() {
			total.Exhaustive = false
			return total, nil
		}
		cur = cs
		cur.Pending, cur.CurBound = res.Pending, res.CurBound
		if total.Want != "" {
			w := total.Want
			cur.Expect, cur.RefProg = &w, ""
		}
	}
}

func coordinate(c *vc.Ctx, cases []Case) {
	if c.Level == "exploration" {
		c.Level = "model_checking" // C31 sets fault_enumeration itself
	}
	c.Reruns = 1
	c.BatchSize = 1
	if c.Replay != "" {
		replayFile(c)
	}
	os.RemoveAll(filepath.Join(vc.OutRoot(), "replays", c.ID)) // replay files of earlier runs
	perCase := vc.Pick(c, 60*time.Second, 10*time.Minute)
	var mu sync.Mutex
	var states, transitions, schedules, replays int64
	type row struct {
		Name       string         `json:"name"`
		Schedules  int            `json:"schedules"`
		Bound      int            `json:"preemption_bound_completed"`
		Outcomes   int            `json:"distinct_outcomes"`
		Threads    int            `json:"threads"`
		MaxPoints  int            `json:"max_points"`
		Exhaustive bool           `json:"exhaustive"`
	}
	var rows []row
	oneOutcome := 0
	complete := vc.Run(c, func(emit func(Case)) {
		for _, cs := range cases {
			emit(cs)
		}
	}, func(cs Case) *vc.Fail {
		r, err := runCase(c, cs, perCase)
		if err != nil {
			fmt.Fprintln(os.Stderr, "vsc: harness failure:", err)
			os.Exit(2)
		}
		mu.Lock()
		schedules += int64(r.Executions)
		transitions += int64(r.Points)
		states += int64(len(r.Outcomes))
		if cs.Schedule != nil {
			replays++
		}
		rows = append(rows, row{cs.Name, r.Executions, r.BoundCompleted, len(r.Outcomes), r.MaxThreads, r.MaxPoints, r.Exhaustive})
		if len(r.Outcomes) == 1 && r.MaxThreads > 1 {
			oneOutcome++
		}
		mu.Unlock()
		c.Eval(r.Executions - 1)
		for o := range r.Outcomes {
			c.Distinct(cs.Name + "\x00" + o)
		}
		c.Sample(map[string]any{"case": cs.Name, "prog": cs.Prog, "sub": cs.Sub, "schedules": r.Executions, "outcomes": keys(r.Outcomes), "sample": r.Sample})
		if !r.Exhaustive && len(r.Violations) == 0 {
			c.CapNote("%s: time budget hit after %d schedules; preemption bound completed: %d (asked %d)", cs.Name, r.Executions, r.BoundCompleted, cs.Bound)
		}
		if len(r.Violations) == 0 {
			return nil
		}
		v := r.Violations[0]
		// the key names every kind of violation (and every race signature)
		// seen for this program, so a recorded finding does not hide a new one
		var sigs []string
		for _, w := range r.Violations {
			sg := w.Kind
			if w.Sig != "" {
				sg += "[" + w.Sig + "]"
			}
			sigs = append(sigs, sg)
		}
		sort.Strings(sigs)
		class := ""
		if cs.Prop == "C27" && (strings.HasPrefix(cs.Name, "pipe-last/") || strings.HasPrefix(cs.Name, "local:pipe-last/")) && len(sigs) == 1 && sigs[0] == "outcome" {
			// one recorded finding covers the family: the last stage of a
			// pipeline runs in the parent shell itself
			class = "pipe-last-runs-in-parent"
		}
		if cs.Prop == "C31" && len(sigs) == 1 && sigs[0] == "cancel-no-error" && cancelSwallowedShape(cs.Name) {
			class = "cancel-observed-as-ordinary-failure"
		}
		return &vc.Fail{
			Class:  class,
			Key:    fmt.Sprintf("%s/%s: %s", cs.Prop, cs.Name, strings.Join(sigs, " + ")),
			Msg:    fmt.Sprintf("%s: %s [%s] schedule=%v (preemption bound %d; %d kinds of violation for this program)", cs.Name, v.Msg, oneLine(cs.Prog), v.Schedule, v.Bound, len(r.Violations)),
			Detail: map[string]any{"violations": r.Violations, "prog": cs.Prog},
		}
	})
	stopAllProcs()
	sort.Slice(rows, func(i, j int) bool { return rows[i].Name < rows[j].Name })
	c.Extra["states"] = states
	c.Extra["transitions"] = transitions
	c.Extra["schedules"] = schedules
	c.Extra["traces_validated_against_impl"] = schedules
	c.Extra["program_table"] = rows
	c.Extra["programs_with_single_outcome"] = oneOutcome
	c.Extra["states_meaning"] = "distinct (program, observable outcome) pairs; transitions = scheduling points executed on the real interpreter; every schedule is an execution of the real code, so traces validated = schedules"
	c.Finish(complete)
}

// replayFile re-executes exactly the recorded schedules of a replay file,
// without the explorer.
func replayFile(c *vc.Ctx) {
	data, err := os.ReadFile(c.Replay)
	if err != nil {
		fmt.Fprintln(os.Stderr, err)
		os.Exit(2)
	}
	var r struct {
		Case   Case `json:"case"`
		Detail struct {
			Violations []Violation `json:"violations"`
		} `json:"detail"`
	}
	if err := json.Unmarshal(data, &r); err != nil || r.Case.Prog == "" {
		fmt.Fprintln(os.Stderr, "bad replay file")
		os.Exit(2)
	}
	failing := 0
	for _, v := range r.Detail.Violations {
		cs := r.Case
		cs.Schedule = v.Schedule
		if cs.Schedule == nil {
			cs.Schedule = []int{}
		}
		res, err := runWorker(&cs)
		if err != nil {
			fmt.Fprintln(os.Stderr, "vsc: harness failure:", err)
			os.Exit(2)
		}
		if len(res.Violations) > 0 {
			failing++
			fmt.Printf("replay: schedule %v still fails: %s\n", v.Schedule, res.Violations[0].Msg)
		} else {
			fmt.Printf("replay: schedule %v passes now (%v)\n", v.Schedule, keys(res.Outcomes))
		}
	}
	stopAllProcs()
	if failing > 0 {
		fmt.Printf("VIOLATION property=%s replay=%s\n", c.ID, c.Replay)
		os.Exit(1)
	}
	os.Exit(0)
}

// cancelSwallowedShape reports whether a C31 program has one of the shapes in
// which the cancellation is observed by a command whose failure the shell
// language itself turns into success (wait returns 0, a `while read` loop
// ends normally, a pipeline takes the status of its last stage, a background
// job / process substitution / trap handler / `if` condition does not
// propagate its status): for those Run returns promptly but with a nil
// error. Every other shape (a plain loop, read, sleep, cat, command
// substitution, function, subshell, eval, ...) must return an error.
func cancelSwallowedShape(name string) bool {
	name = strings.TrimPrefix(name, "second-run-fn:")
	name = strings.TrimPrefix(name, "second-run:")
	w, b, ok := strings.Cut(name, "/")
	if !ok {
		return false
	}
	switch w {
	case "background-wait", "procsubst-in", "in-exit-trap", "in-exit-trap-after-exit", "in-err-trap", "pipe-left", "pipe-right", "if-cond":
		return true
	}
	switch b {
	case "wait-job", "wait-jobid", "wait-reader", "read-loop", "select-like", "procsubst-unread":
		return true
	}
	return false
}

func oneLine(s string) string {
	s = strings.ReplaceAll(s, parentSetup, "<setup>")
	s = strings.ReplaceAll(s, parentDump, "<dump>")
	return strings.ReplaceAll(s, "\n", "; ")
}

func keys(m map[string]int) []string {
	var out []string
	for k := range m {
		out = append(out, k)
	}
	sort.Strings(out)
	if len(out) > 6 {
		out = out[:6]
	}
	return out
}
