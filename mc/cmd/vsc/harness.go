//go:build verif

package main

import (
	"context"
	"fmt"
	"io"
	"os"
	"path/filepath"
	"strings"
	"time"

	"mvdan.cc/sh/v3/expand"
	"mvdan.cc/sh/v3/interp"
	"mvdan.cc/sh/v3/syntax"
	"mvdan.cc/sh/v3/vsched"
)

// Case is one program whose schedules are explored exhaustively up to a
// preemption bound. It is also the replay format (Schedule set).
type Case struct {
	Prop string `json:"prop"`
	Name string `json:"name"`
	// Prog is run by Runner.Run as thread 0.
	Prog string `json:"prog"`
	// Sub, if non-empty, is run concurrently on a Runner.Subshell() copy taken
	// after Setup (the exported-API clause of C32).
	Sub   string `json:"sub,omitempty"`
	Setup string `json:"setup,omitempty"`
	// Expect, if non-nil, is the outcome every schedule must produce.
	Expect *string `json:"expect,omitempty"`
	// Same: every schedule must produce the same outcome (whatever it is).
	Same bool `json:"same,omitempty"`
	// RefProg, if non-empty, is run first (sequentially, default schedule);
	// its outcome is the one every schedule of Prog must produce (C27).
	RefProg string `json:"ref_prog,omitempty"`
	Bound   int    `json:"bound"`
	// Cancel adds the canceller thread (C31); CancelHorizon is K: if the
	// canceller has not been scheduled by point K it is forced; After is H,
	// the number of further points within which Run must return.
	Cancel        bool `json:"cancel,omitempty"`
	CancelHorizon int  `json:"cancel_horizon,omitempty"`
	After         int  `json:"after,omitempty"`
	PipeCap       int  `json:"pipe_cap,omitempty"`
	// Stdin: "" (none), "open" (a pipe nobody writes to or closes), or text.
	Stdin string `json:"stdin,omitempty"`
	// NeverTerminates: the program cannot finish on its own, so when Run
	// returns after the cancel it must return an error.
	NeverTerminates bool `json:"never_terminates,omitempty"`
	// NoDeadlock: main must finish in every schedule.
	NoDeadlock bool `json:"no_deadlock,omitempty"`
	// IgnoreRace: race reports are not this property's business (C27, C31).
	IgnoreRace bool `json:"ignore_race,omitempty"`
	// Schedule, when set, replays exactly this choice sequence.
	Schedule []int `json:"schedule,omitempty"`
	// Pending: resume an exploration (internal, between worker processes).
	Pending [][]int `json:"pending,omitempty"`
	CurBound int     `json:"cur_bound,omitempty"`
	BudgetS  int     `json:"budget_s,omitempty"`
}

type execResult struct {
	Outcome     string
	Recs        []vsched.Rec
	Points      int
	Deadlock    bool
	Diverged    bool
	Horizon     bool
	Blocked     []string
	CancelPoint int
	MainDone    int
	MainOK      bool
	RunErr      string
	Race        string
	Panic       string
	Stderr      string
}

var scratch string

func parseProg(src string) *syntax.File {
	f, err := syntax.NewParser().Parse(strings.NewReader(src), "")
	if err != nil {
		fmt.Fprintf(os.Stderr, "vsc: program does not parse: %v\n%s\n", err, src)
		os.Exit(2)
	}
	return f
}

func execHandlers(next interp.ExecHandlerFunc) interp.ExecHandlerFunc {
	return func(ctx context.Context, args []string) error {
		hc := interp.HandlerCtx(ctx)
		switch args[0] {
		case "true":
			return nil
		case "false":
			return interp.ExitStatus(1)
		case "sleep":
			if len(args) > 1 && args[1] == "inf" {
				vsched.BlockUntilDone(ctx)
				return ctx.Err()
			}
			vsched.Point("sleep")
			return nil
		case "cat":
			if len(args) == 1 {
				if hc.Stdin == nil {
					return nil
				}
				return catCopy(ctx, hc.Stdout, hc.Stdin)
			}
			for _, a := range args[1:] {
				p := a
				if !filepath.IsAbs(p) {
					p = filepath.Join(hc.Dir, p)
				}
				f, err := vsched.OpenFile(p, os.O_RDONLY, 0)
				if err != nil {
					fmt.Fprintf(hc.Stderr, "cat: %v\n", err)
					return interp.ExitStatus(1)
				}
				err = catCopy(ctx, hc.Stdout, f)
				f.Close()
				if err != nil {
					return err
				}
			}
			return nil
		}
		fmt.Fprintf(hc.Stderr, "%s: not available in the harness\n", args[0])
		return interp.ExitStatus(127)
	}
}

// catCopy copies like cat, but like a child process it dies when the context
// is cancelled while it waits for input.
func catCopy(ctx context.Context, w io.Writer, r io.Reader) error {
	buf := make([]byte, 4096)
	for {
		if !vsched.WaitReadable(ctx, r) {
			return ctx.Err()
		}
		n, err := r.Read(buf)
		if n > 0 {
			if _, werr := w.Write(buf[:n]); werr != nil {
				return interp.ExitStatus(1)
			}
		}
		if err == io.EOF {
			return nil
		}
		if err != nil {
			return interp.ExitStatus(1)
		}
	}
}

func outcomeOf(out string, err error) string {
	st := "0"
	if err != nil {
		var es interp.ExitStatus
		if e, ok := err.(interp.ExitStatus); ok {
			es = e
			st = fmt.Sprint(uint8(es))
		} else {
			st = "err:" + err.Error()
		}
	}
	return fmt.Sprintf("status=%s stdout=%q", st, out)
}

// execOnce runs one execution of cs under the schedule prefix.
func execOnce(cs *Case, prefix []int) *execResult {
	s := vsched.New(prefix)
	if cs.PipeCap > 0 {
		s.PipeCap = cs.PipeCap
	}
	if cs.Cancel {
		s.ForceCancelAt = cs.CancelHorizon
		s.MaxPoints = cs.CancelHorizon + cs.After + 50
	}
	prog := parseProg(cs.Prog)
	var setup, sub *syntax.File
	if cs.Setup != "" {
		setup = parseProg(cs.Setup)
	}
	if cs.Sub != "" {
		sub = parseProg(cs.Sub)
	}
	var out, errb vsched.Sink
	var runErr, subErr error
	var subOut vsched.Sink
	before := raceLogSize()
	mainDone := s.Run(func() {
		ctx, cancel := context.WithCancel(context.Background())
		_ = cancel
		var stdin io.Reader
		switch cs.Stdin {
		case "":
		case "open":
			pr, _, _ := vsched.NewPipe()
			stdin = pr
		default:
			stdin = strings.NewReader(cs.Stdin)
		}
		r, err := interp.New(
			interp.StdIO(stdin, &out, &errb),
			interp.ExecHandlers(execHandlers),
			interp.Env(expand.ListEnviron("PATH=/nonexistent", "HOME=/", "TMPDIR="+scratch)),
			interp.Dir("/tmp"),
		)
		if err != nil {
			runErr = err
			return
		}
		if setup != nil {
			// the first Run gets a context of its own, which is never cancelled
			sctx, scancel := context.WithCancel(context.Background())
			defer scancel()
			if err := r.Run(sctx, setup); err != nil {
				runErr = fmt.Errorf("setup: %w", err)
				return
			}
		}
		if cs.Cancel {
			vsched.GoCanceller(func() { cancel(); vsched.NoteCancel() })
		}
		if sub != nil {
			r2 := r.Subshell()
			interp.StdIO(nil, &subOut, &errb)(r2)
			done := make(chan struct{})
			vsched.Go("subshell-api", func() {
				subErr = r2.Run(ctx, sub)
				vsched.Close(done)
			})
			runErr = r.Run(ctx, prog)
			vsched.Recv(done)
			return
		}
		runErr = r.Run(ctx, prog)
	})
	res := &execResult{MainOK: mainDone}
	res.Recs, res.Points, res.Deadlock, res.Diverged, res.Horizon, res.Blocked, res.CancelPoint, res.MainDone = s.Snapshot()
	if mainDone {
		res.Outcome = outcomeOf(out.String(), runErr)
		if sub != nil {
			res.Outcome += " sub:" + outcomeOf(subOut.String(), subErr)
		}
		if runErr != nil {
			res.RunErr = runErr.Error()
		}
	} else {
		res.Outcome = "main-did-not-finish"
	}
	if msg, stack := s.PanicInfo(); msg != "" {
		res.Panic = msg + "\n" + stack
		res.Outcome = "panic: " + msg
	}
	res.Stderr = errb.String()
	if after := raceLogSize(); after > before {
		res.Race = raceLogTail(before)
	}
	return res
}

var raceLogPath string

func raceLogSize() int64 {
	if raceLogPath == "" {
		return 0
	}
	fi, err := os.Stat(raceLogPath)
	if err != nil {
		return 0
	}
	return fi.Size()
}

func raceLogTail(from int64) string {
	// the race runtime writes synchronously, but give the file a moment
	time.Sleep(time.Millisecond)
	data, err := os.ReadFile(raceLogPath)
	if err != nil || int64(len(data)) <= from {
		return "(race report not readable)"
	}
	t := string(data[from:])
	if len(t) > 6000 {
		t = t[:6000] + "\n…"
	}
	return t
}
