//go:build verif

package main

import (
	"os"
	"runtime/pprof"
)

func startProfile() func() {
	p := os.Getenv("VSC_CPUPROFILE")
	if p == "" {
		return func() {}
	}
	f, err := os.Create(p)
	if err != nil {
		return func() {}
	}
	pprof.StartCPUProfile(f)
	return func() { pprof.StopCPUProfile(); f.Close() }
}
