//go:build verif

package main

import (
	"fmt"
	"strings"

	"verif/mc/vc"
)

func sp(s string) *string { return &s }

// The state every C27/C32 program starts from, and the dump that observes it.
const parentSetup = `x=1; e=5; export e; a=(p q r); s=([2]=u [5]=w); t=([1]=a [4]=b [8]=c); unset 't[8]'; declare -A m=([k]=v [j]=w); f() { echo orig; }; alias al=orig; set -- P Q; g() { local loc=1; "$@"; }`

const parentDump = `declare -p x e a s t n u 2>&1; declare -f f h 2>&1; alias; set -o; shopt nullglob; shopt dotglob; pwd; echo "$#:$*"; echo "a0=${a[0]} a1=${a[1]} #a=${#a[@]} ia=${!a[*]} is=${!s[*]} mk=${m[k]-unset} mj=${m[j]-unset} mn=${m[new]-unset} #m=${#m[@]}"; f`

// mutations is the alphabet of command lists S (each changes some part of the
// shell state; none writes to stdout).
var mutations = []struct{ name, s string }{
	{"scalar-assign", "x=2"},
	{"scalar-append", "x+=2"},
	{"scalar-unset", "unset x"},
	{"new-var", "n=7"},
	{"export", "export x"},
	{"export-assign", "export e=6"},
	{"readonly", "readonly x"},
	{"arr-elem", "a[0]=Z"},
	{"arr-elem-append", "a[1]+=Z"},
	{"arr-append-elem0", "a+=Z"},
	{"arr-append-list", "a+=(Z)"},
	{"arr-unset-elem", "unset 'a[1]'"},
	{"arr-assign", "a=(Z)"},
	{"arr-unset", "unset a"},
	{"arr-neg-index", "a[-1]=Z"},
	{"sparse-elem", "s[2]=Z"},
	{"sparse-new", "s[3]=Z"},
	{"sparse-append0", "s+=Z"},
	{"sparse-unset-elem", "unset 's[5]'"},
	// t was shrunk by an unset, so its index slice has spare capacity
	{"sparse-spare-insert-middle", "t[2]=Z"},
	{"sparse-spare-insert-front", "t[0]=Z"},
	{"sparse-spare-append", "t[9]=Z"},
	{"sparse-spare-append0", "t+=Z"},
	{"assoc-elem", "m[k]=Z"},
	{"assoc-elem-append", "m[k]+=Z"},
	{"assoc-new", "m[new]=Z"},
	{"assoc-unset-elem", "unset 'm[k]'"},
	{"assoc-append-list", "m+=([new]=Z)"},
	{"func-redefine", "f() { echo new; }"},
	{"func-new", "h() { :; }"},
	{"func-unset", "unset -f f"},
	{"alias-redefine", "alias al=new"},
	{"unalias", "unalias al"},
	{"set-e", "set -e"},
	{"set-f", "set -f"},
	{"set-u-pipefail", "set -u -o pipefail"},
	{"shopt-nullglob", "shopt -s nullglob"},
	{"shopt-dotglob", "shopt -s dotglob"},
	{"cd", "cd /"},
	{"set-params", "set -- Z"},
	{"shift", "shift"},
	{"default-assign", ": ${u:=Z}"},
	{"arith-incr", "((x++))"},
	{"arith-arr", "((a[0]=7))"},
	{"let", "let x=9"},
	{"read", "read x <<<Z"},
	{"read-array", "read -a a <<<'Z Y'"},
	{"for-var", "for x in 7; do :; done"},
	{"declare-g", "declare -g x=Z"},
	{"local-in-func", "g eval loc=2 x=3"},
	{"getopts", "getopts ab opt -a"},
	{"nameref", "declare -n ref=x; ref=Z"},
	{"trap", "trap 'echo trapped' EXIT"},
	{"mapfile", "mapfile -t a <<<Z"},
	{"arr-append-subscript", "a+=([1]=Z)"},
	{"arr-append-neg-subscript", "a+=([-1]=Z)"},
	{"arr-append-subscript-run", "a+=([0]=Z Y)"},
	{"arr-assign-subscript", "a=([1]=Z)"},
	{"sparse-append-subscript", "s+=([5]=Z)"},
	{"sparse-append-subscripts", "s+=([2]=Z [9]=Y)"},
	{"declare-a-assign", "declare -a a=(Z)"},
	{"declare-elem", "declare a[1]=Z"},
	{"assoc-assign", "m=([k]=Z)"},
	{"declare-A-assign", "declare -A m=([k]=Z)"},
	{"func-changes-globals", "chg() { x=2; a[0]=Z; m[k]=Z; s[2]=Z; }; chg"},
	{"eval-assign", "eval 'x=2; a[0]=Z; m[k]=Z'"},
	{"integer-attr", "declare -i x; x+=1"},
	{"prefix-assign", "x=2 e=7 true"},
	{"export-array-then-elem", "export a; a[0]=Z"},
	{"export-assoc-then-elem", "export m; m[k]=Z"},
	{"readonly-assoc-then-new", "declare -x m; m[new]=Z"},
	{"readonly-array", "readonly a"},
	{"unset-v", "unset -v x"},
	{"lowercase-attr", "declare -l x; x=ZZ"},
	{"two-step-array", "a[0]=Y; a[0]+=Z; a+=(W)"},
	{"two-step-assoc", "m[k]+=Y; m[new]=Z; unset 'm[j]'"},
	{"unset-then-set", "unset a; a=(Z Y)"},
}

// The same for state that is local to a function (the property quantifies
// over "locals inside functions"): the whole scenario runs inside main.
const localSetup = `main() { local lx=1; local -a la=(p q r); local -a ls=([2]=u [5]=w); local -A lm=([k]=v [j]=w); local -a lt=([1]=a [4]=b [8]=c); unset 'lt[8]'`

const localDump = `echo "lx=${lx-unset} la=${la[*]-unset} ila=${!la[*]} #la=${#la[@]} ls=${ls[*]-unset} ils=${!ls[*]} lmk=${lm[k]-unset} lmj=${lm[j]-unset} lmn=${lm[new]-unset} #lm=${#lm[@]} lt=${lt[*]-unset} ilt=${!lt[*]}"; declare -p lx la ls 2>&1; }; main`

var localMutations = []struct{ name, s string }{
	{"l-scalar-assign", "lx=2"},
	{"l-scalar-append", "lx+=2"},
	{"l-scalar-unset", "unset lx"},
	{"l-redeclare", "local lx=9"},
	{"l-export-then-assign", "export lx; lx=3"},
	{"l-arr-elem", "la[0]=Z"},
	{"l-arr-elem-append", "la[1]+=Z"},
	{"l-arr-append-elem0", "la+=Z"},
	{"l-arr-append-list", "la+=(Z)"},
	{"l-arr-append-subscript", "la+=([1]=Z)"},
	{"l-arr-append-neg-subscript", "la+=([-1]=Z)"},
	{"l-arr-unset-elem", "unset 'la[1]'"},
	{"l-arr-assign", "la=(Z)"},
	{"l-arr-unset", "unset la"},
	{"l-arr-export-then-elem", "export la; la[0]=Z"},
	{"l-sparse-elem", "ls[2]=Z"},
	{"l-sparse-new", "ls[3]=Z"},
	{"l-sparse-append0", "ls+=Z"},
	{"l-sparse-append-subscript", "ls+=([5]=Z)"},
	{"l-sparse-unset-elem", "unset 'ls[5]'"},
	{"l-sparse-spare-insert-middle", "lt[2]=Z"},
	{"l-sparse-spare-insert-front", "lt[0]=Z"},
	{"l-assoc-elem", "lm[k]=Z"},
	{"l-assoc-elem-append", "lm[k]+=Z"},
	{"l-assoc-new", "lm[new]=Z"},
	{"l-assoc-unset-elem", "unset 'lm[k]'"},
	{"l-assoc-append-list", "lm+=([new]=Z)"},
	{"l-assoc-export-then-elem", "export lm; lm[k]=Z"},
	{"l-assoc-declare-x-then-new", "declare -x lm; lm[new]=Z"},
	{"l-read", "read lx <<<Z"},
	{"l-read-array", "read -a la <<<'Z Y'"},
	{"l-arith", "((lx++))"},
	{"l-for-var", "for lx in 7; do :; done"},
	{"l-nested-func", "inner() { lx=5; la[0]=Z; lm[k]=Z; }; inner"},
}

var localParentActions = []struct{ name, s string }{
	{"none", ""},
	{"read", `: "$lx ${la[0]} ${la[*]} ${ls[*]} ${lm[k]}"`},
	{"write", `lx=P; la[0]=P; la+=(P2); ls[2]=P; lm[k]=P`},
}

// contexts wrap S so that it runs in a subshell of some kind. conc marks the
// ones that run S concurrently with the parent.
var contexts = []struct {
	name string
	wrap func(s string) string
	conc bool
}{
	{"paren", func(s string) string { return "( " + s + " )" }, false},
	{"cmdsubst", func(s string) string { return ": $( " + s + " )" }, false},
	{"cmdsubst-dq", func(s string) string { return ": \"$( " + s + " )\"" }, false},
	{"backquote", func(s string) string { return ": `" + strings.ReplaceAll(s, "`", "\\`") + "`" }, false},
	{"bg", func(s string) string { return "{ " + s + "; } &" }, true},
	{"bg-plain", func(s string) string { return s + " &" }, true},
	{"pipe-first", func(s string) string { return "{ " + s + "; } | :" }, true},
	{"pipe-last", func(s string) string { return ": | { " + s + "; }" }, true},
	{"pipe-middle", func(s string) string { return ": | { " + s + "; } | :" }, true},
	{"procsubst-in", func(s string) string { return "cat <( " + s + " )" }, true},
	{"procsubst-out", func(s string) string { return ": > >( " + s + " )" }, true},
	{"bg-cmdsubst", func(s string) string { return ": $( " + s + " ) &" }, true},
	{"func-subshell", func(s string) string { return "k() ( " + s + " ); k" }, false},
	{"coproc-like-bg-paren", func(s string) string { return "( " + s + " ) &" }, true},
}

// parentActions run in the parent between starting the context and waiting.
var parentActions = []struct{ name, s string }{
	{"none", ""},
	{"read", `: "$x ${a[0]} ${a[*]} ${s[*]} ${m[k]} $1 $e"; f >/dev/null; al=1`},
	{"write", `x=P; a[0]=P; a+=(P2); s[2]=P; m[k]=P; set -- PP; f() { echo pnew; }`},
}

func genSubshellCases(prop string, c *vc.Ctx, emit func(Case)) {
	bound := vc.Pick(c, 1, 2)
	// function-local state
	for _, k := range contexts {
		if k.name == "func-subshell" || k.name == "backquote" || k.name == "cmdsubst-dq" {
			continue
		}
		for _, m := range localMutations {
			if k.name == "bg-plain" && strings.Contains(m.s, ";") {
				continue // `S &` backgrounds only the last command of a list
			}
			for _, pa := range localParentActions {
				if !k.conc && pa.name != "none" {
					continue
				}
				if k.conc && c.Quick() && pa.name == "read" && prop == "C27" {
					continue
				}
				mid := ""
				if pa.s != "" {
					mid = pa.s + "\n"
				}
				prog := localSetup + "\n" + k.wrap(m.s) + "\n" + mid + "wait\n" + localDump
				ref := localSetup + "\n" + mid + "wait\n" + localDump
				cs := Case{Prop: prop, Name: fmt.Sprintf("local:%s/%s/%s", k.name, m.name, pa.name), Prog: prog, Bound: bound, PipeCap: 8}
				if !k.conc {
					cs.Bound = 0
				}
				if prop == "C27" {
					cs.RefProg = ref
					cs.IgnoreRace = true
				} else {
					cs.Same = true
					cs.NoDeadlock = true
				}
				emit(cs)
			}
		}
	}
	for _, k := range contexts {
		for _, m := range mutations {
			if strings.HasPrefix(k.name, "backquote") && strings.Contains(m.s, "'") {
				// quoting inside backquotes is a parser matter, not this property's
				continue
			}
			if k.name == "bg-plain" && strings.Contains(m.s, ";") {
				continue // `S &` backgrounds only the last command of a list
			}
			for _, pa := range parentActions {
				if !k.conc && pa.name != "none" {
					continue // nothing runs concurrently: one parent action is enough
				}
				if prop == "C27" && k.conc && c.Quick() && pa.name == "read" {
					continue
				}
				body := k.wrap(m.s)
				mid := ""
				if pa.s != "" {
					mid = pa.s + "\n"
				}
				prog := parentSetup + "\n" + body + "\n" + mid + "wait\n" + parentDump
				ref := parentSetup + "\n" + mid + "wait\n" + parentDump
				cs := Case{Prop: prop, Name: fmt.Sprintf("%s/%s/%s", k.name, m.name, pa.name), Prog: prog, Bound: bound, PipeCap: 8}
				if !k.conc {
					cs.Bound = 0
				}
				if prop == "C27" {
					cs.RefProg = ref
					cs.IgnoreRace = true
				} else {
					cs.Same = true
					cs.NoDeadlock = true
					cs.RefProg = ""
				}
				emit(cs)
			}
		}
	}
}

func casesC27(c *vc.Ctx) []Case {
	c.Rule = "programs = parent state (scalar, exported, indexed dense/sparse, associative, function, alias, options, cwd, positional params, function-local) x every mutation S of a 77-entry alphabet (plus 32 mutations of function-local scalars/arrays with the whole scenario inside a function) x 14 subshell contexts (( ), $( ), backquotes, function with ( ) body, S &, pipeline first/middle/last stage, <( ), >( ), $( ) in a background job) x parent actions {none, read, write}; for the concurrent contexts every goroutine interleaving of the real interpreter up to the preemption bound is executed; oracle: the parent's state dump (declare -p, declare -f, alias, set -o, shopt, pwd, $@, array views) equals the dump of the same program without S, on every schedule; distinct = (program, outcome) pairs"
	c.Assumptions = []string{
		"interp is instrumented at build time from /repo's working tree (mc/instr): goroutine starts, channel close/receive, WaitGroup, pipes, FIFOs and context.AfterFunc go through the controlled scheduler mc/shim/vsched; stdin_os.go is replaced by an interface-based variant",
		"external commands are replaced by in-process cat/true/false/sleep",
		"the last stage of a pipeline is expected to be isolated like every other stage (bash without lastpipe), as the property states",
	}
	var out []Case
	genSubshellCases("C27", c, func(cs Case) { out = append(out, cs) })
	return out
}

func casesC32(c *vc.Ctx) []Case {
	c.Rule = "programs = the C27 family (parent state x 77 (+32 function-local) mutations x 10 concurrent contexts x parent actions none/read/write) + wait-status programs + Runner.Subshell() copies run concurrently with their parent through the exported API; every goroutine interleaving of the real interpreter up to the preemption bound is executed under the Go race detector (the scheduler's hand-off is invisible to it, so only the program's own happens-before edges count); oracles: no race report on any schedule, Run returns on every schedule, `wait gN` yields job N's status on every schedule, programs whose jobs touch only private state have one outcome; distinct = (program, outcome) pairs"
	c.Assumptions = []string{
		"interp is instrumented at build time from /repo's working tree (mc/instr); the race detector sees goroutine start, close->receive, WaitGroup and pipe write->read edges exactly as in an uninstrumented run",
		"x86-64 TSO makes the scheduler's plain-word token hand-off sound",
		"external commands are replaced by in-process cat/true/false/sleep",
	}
	b := vc.Pick(c, 2, 3)
	var out []Case
	add := func(cs Case) {
		cs.Prop = "C32"
		if cs.Bound == 0 {
			cs.Bound = b
		}
		cs.NoDeadlock = true
		out = append(out, cs)
	}
	// wait gN returns job N's status whatever the scheduling
	add(Case{Name: "wait/2jobs", Prog: "(exit 3) & (exit 5) & wait g1; echo $?; wait g2; echo $?", Expect: sp(`status=0 stdout="3\n5\n"`)})
	add(Case{Name: "wait/2jobs-reversed", Prog: "(exit 3) & (exit 5) & wait g2; echo $?; wait g1; echo $?", Expect: sp(`status=0 stdout="5\n3\n"`)})
	add(Case{Name: "wait/3jobs", Prog: "(exit 1) & (exit 2) & (exit 3) & wait g2; echo $?; wait g3; echo $?; wait g1; echo $?", Expect: sp(`status=0 stdout="2\n3\n1\n"`), Bound: vc.Pick(c, 1, 2)})
	add(Case{Name: "wait/bang", Prog: "(exit 4) & p=$!; (exit 6) & wait $p; echo $?; wait $!; echo $?", Expect: sp(`status=0 stdout="4\n6\n"`)})
	add(Case{Name: "wait/both-args", Prog: "(exit 4) & (exit 6) & wait g1 g2; echo $?", Expect: sp(`status=0 stdout="6\n"`)})
	add(Case{Name: "wait/slow-job", Prog: "{ sleep 1; sleep 1; exit 7; } & { exit 8; } & wait g1; echo $?; wait g2; echo $?", Expect: sp(`status=0 stdout="7\n8\n"`)})
	add(Case{Name: "wait/all-then-one", Prog: "(exit 9) & wait; wait g1; echo $?", Expect: sp(`status=0 stdout="9\n"`)})
	add(Case{Name: "wait/in-function", Prog: "w() { wait g1; echo $?; }; (exit 3) & w", Expect: sp(`status=0 stdout="3\n"`)})
	add(Case{Name: "wait/errexit-job", Prog: "{ set -e; false; echo no; } & wait g1; echo $?", Expect: sp(`status=0 stdout="1\n"`)})
	add(Case{Name: "wait/pipeline-job", Prog: "{ echo a | { cat >/dev/null; exit 5; }; } & wait g1; echo $?", Expect: sp(`status=0 stdout="5\n"`)})
	add(Case{Name: "wait/procsubst-then-job", Prog: "cat <(echo a) >/dev/null; (exit 3) & wait g2; echo $?", Expect: sp(`status=0 stdout="3\n"`)})
	// private state only: one outcome
	add(Case{Name: "private/two-writers", Prog: "{ y=1; y+=2; echo $y >/dev/null; } & { z=(1 2); z+=(3); } & wait; echo done", Same: true})
	add(Case{Name: "private/pipe-chain", Prog: "echo a | cat | cat | { read l; echo $l; }", Same: true, PipeCap: 1, Bound: vc.Pick(c, 1, 2)})
	add(Case{Name: "private/pipe-big", Prog: "echo abcdefghijklmnop | cat | { read l; echo ${#l}; }", Same: true, PipeCap: 3, Bound: 1})
	add(Case{Name: "private/heredoc", Prog: "cat <<EOF | cat\nline1 $((1+1))\nline2\nEOF", Same: true, PipeCap: 4, Bound: vc.Pick(c, 1, 2)})
	add(Case{Name: "private/herestring", Prog: "read l <<<\"abc def\"; echo $l", Same: true, PipeCap: 2})
	add(Case{Name: "private/procsubst-both", Prog: "cat <(echo a) <(echo b)", Same: true})
	add(Case{Name: "private/procsubst-out", Prog: "echo hi > >(cat); wait; echo end", Same: true})
	add(Case{Name: "private/cmdsubst-in-bg", Prog: "{ v=$(echo a | cat); echo $v >/dev/null; } & w=$(echo b); wait; echo $w", Same: true})
	add(Case{Name: "private/pipefail", Prog: "set -o pipefail; false | true; echo $?; true | false; echo $?", Same: true})
	add(Case{Name: "private/stderr-pipe", Prog: "{ echo out; echo err >&2; } |& cat", Same: true})
	add(Case{Name: "private/nested-bg", Prog: "{ { exit 2; } & wait g1; exit $?; } & wait g1; echo $?", Expect: sp(`status=0 stdout="2\n"`)})
	add(Case{Name: "private/while-read", Prog: "printf 'a\\nb\\n' | while read l; do echo \"<$l>\"; done", Same: true, PipeCap: 2})
	// Runner.Subshell() copies used concurrently with their parent
	subs := []struct{ name, prog, sub string }{
		{"scalar", "x=P; echo $x", "x=S; echo $x"},
		{"array-elem", "a[0]=P; echo ${a[*]}", "a[0]=S; echo ${a[*]}"},
		{"array-append0", "a+=P; echo ${a[*]}", "echo ${a[0]}; a+=S"},
		{"array-append-list", "a+=(P); echo ${#a[@]}", "a+=(S); echo ${#a[@]}"},
		{"sparse", "s[2]=P; echo ${s[*]}", "s+=S; echo ${s[*]}"},
		{"assoc", "m[k]=P; echo ${m[k]}", "m[k]+=S; echo ${m[k]}"},
		{"func", "f() { echo P; }; f", "f; f() { echo S; }; f"},
		{"alias", "alias al=P; alias", "alias al=S; alias"},
		{"opts", "set -f; shopt -s nullglob; set -o", "set -u; shopt -s dotglob; set -o"},
		{"params", "set -- P; echo $#", "shift; echo $#"},
		{"cd", "cd /; pwd", "cd /; pwd; cd - >/dev/null"},
		{"export", "export x=P; declare -p x", "export x=S; declare -p x"},
		{"unset", "unset x a m; echo ${x-u}", "echo $x ${a[*]} ${m[k]}"},
		{"bg-in-both", "(exit 3) & wait g1; echo $?", "(exit 4) & wait g1; echo $?"},
		{"trap", "trap 'echo P' EXIT", "trap 'echo S' EXIT"},
		{"read-only-use", `echo "$x ${a[*]} ${s[*]} ${m[k]} $1"; f`, `echo "$x ${a[*]} ${s[*]} ${m[k]} $1"; f`},
	}
	for _, s := range subs {
		add(Case{Name: "subshell-api/" + s.name, Setup: parentSetup, Prog: s.prog, Sub: s.sub, Same: true})
	}
	genSubshellCases("C32", c, func(cs Case) {
		// the concurrent contexts only; the quick tier keeps the parent
		// actions that touch the shared objects
		if cs.Bound == 0 {
			return
		}
		if c.Quick() && strings.HasSuffix(cs.Name, "/none") {
			return
		}
		cs.Bound = vc.Pick(c, 1, 2)
		out = append(out, cs)
	})
	return out
}

// ---- C31 ----

var blockers = []struct {
	name, s string
	never bool // cannot finish on its own
}{
	{"loop-while", "while :; do :; done", true},
	{"loop-until", "until false; do :; done", true},
	{"loop-for", "for ((;;)); do :; done", true},
	{"loop-output", "while :; do echo y; done", true},
	{"read", "read x", true},
	{"read-loop", "while read l; do :; done", true},
	{"cat-stdin", "cat", true},
	{"sleep", "sleep inf", true},
	{"wait-job", "sleep inf & wait", true},
	{"wait-jobid", "sleep inf & wait g1", true},
	{"wait-reader", "read y & wait", true},
	{"procsubst-unread", "cat <(sleep inf)", true},
	{"procsubst-never-read", ": <(echo a); sleep inf", true},
	{"procsubst-read", "read x < <(sleep inf)", true},
	{"procsubst-out", ": > >(read y); read x", true},
	{"pipe-block", "sleep inf | cat", true},
	{"pipe-read", "read x | read y", true},
	{"cmdsubst", "echo $(read x)", true},
	{"heredoc-then-read", "cat <<EOF\nhi\nEOF\nread x", true},
	{"fn-recursion", "r() { r; }; r", true},
	{"select-like", "while read -r a b; do echo $a; done", true},
	{"cstyle-exit", "for ((;;)); do exit; done", false}, // finite: exit leaves the loop (it did not before fix 5cf081e)
	{"cstyle-return", "cf() { for ((;;)); do return; done; }; cf", false},
	{"cstyle-break2", "for ((;;)); do for ((;;)); do break 2; done; done; sleep inf", true},
	{"mapfile", "mapfile -t arr", true},
	{"read-delim", "read -d : x", true},
	{"read-array", "read -a arr", true},
	{"read-n", "read -n 3 x", true},
	{"procsubst-never-opened-wait", ": <(echo a); wait", true},
	{"procsubst-out-never-opened-wait", ": >(cat); wait", true},
	{"finite", "echo a; echo b; echo c", false},
	{"finite-bg", "(exit 3) & wait g1; echo $?", false},
}

var wrappers = []struct {
	name string
	wrap func(s string) string
}{
	{"plain", func(s string) string { return s }},
	{"function", func(s string) string { return "fn() { " + s + "\n}; fn" }},
	{"subshell", func(s string) string { return "( " + s + "\n)" }},
	{"group", func(s string) string { return "{ " + s + "\n}" }},
	{"pipe-left", func(s string) string { return "{ " + s + "\n} | cat" }},
	{"pipe-right", func(s string) string { return "echo in | { " + s + "\n}" }},
	{"cmdsubst", func(s string) string { return "v=$( " + s + "\n)" }},
	{"background-wait", func(s string) string { return "{ " + s + "\n} &\nwait" }},
	{"if-cond", func(s string) string { return "if { " + s + "\n}; then :; fi" }},
	{"eval", func(s string) string { return "eval '" + strings.ReplaceAll(s, "'", `'\''`) + "'" }},
	{"then-more", func(s string) string { return s + "\necho after; sleep inf" }},
	{"exit-trap", func(s string) string { return "trap 'echo bye' EXIT\n" + s }},
	{"and-or", func(s string) string { return "true && { " + s + "\n} || echo no" }},
	{"case", func(s string) string { return "case x in x) " + s + "\n;; esac" }},
	{"for-body", func(s string) string { return "for i in 1 2; do " + s + "\ndone" }},
	{"in-exit-trap", func(s string) string { return "trap '" + strings.ReplaceAll(s, "'", `'\''`) + "' EXIT\necho body" }},
	{"in-exit-trap-after-exit", func(s string) string { return "trap '" + strings.ReplaceAll(s, "'", `'\''`) + "' EXIT\nexit 3" }},
	{"in-err-trap", func(s string) string { return "trap '" + strings.ReplaceAll(s, "'", `'\''`) + "' ERR\nfalse\necho after" }},
	{"procsubst-in", func(s string) string { return "cat <( " + s + "\n)" }},
	{"herestring-cmdsubst", func(s string) string { return "cat <<<\"$( " + s + "\n)\"" }},
	{"heredoc-cmdsubst", func(s string) string { return "cat <<EOF\n$( " + s + "\n)\nEOF" }},
}

var quickWrappers = map[string]bool{"in-exit-trap": true, "in-err-trap": true, "procsubst-in": true, "plain": true, "function": true, "subshell": true, "pipe-left": true, "cmdsubst": true, "background-wait": true, "eval": true, "exit-trap": true, "then-more": true}

var secondRunWrappers = map[string]bool{"plain": true, "cmdsubst": true, "procsubst-in": true, "pipe-left": true, "background-wait": true, "herestring-cmdsubst": true, "heredoc-cmdsubst": true, "in-exit-trap": true}

var quickSecondRun = map[string]bool{"loop-while": true, "read": true, "sleep": true, "wait-job": true, "cat-stdin": true, "loop-until": true}

var readsStdin = map[string]bool{"mapfile": true, "read-delim": true, "read-array": true, "read-n": true, "read": true, "read-loop": true, "cat-stdin": true, "pipe-read": true, "cmdsubst": true, "select-like": true, "heredoc-then-read": true, "wait-reader": true, "procsubst-out": true}

func casesC31(c *vc.Ctx) []Case {
	c.Level = "fault_enumeration"
	K := vc.Pick(c, 20, 60)
	c.Rule = fmt.Sprintf("programs = 32 blocking/non-terminating/finite shapes x 21 wrappers (quick: 12), each also as the second Run of a Runner whose first Run used another context (directly and through a function defined in the first Run) (function, subshell, group, pipeline side, command substitution, background+wait, condition, eval, followed by more, EXIT trap, and-or, case, loop body) with standard input an open pipe nobody writes to; fault = the cancellation of Run's context, injected as a scheduler thread at EVERY scheduling point up to point %d (forced there), crossed with every interleaving of the other threads up to the preemption bound; oracle: after the cancel step Run returns within %d further scheduling points (no deadlock = no enabled thread, no livelock = horizon), with a non-nil error when the program cannot finish on its own; distinct = (program, cancel point, outcome)", K, 80)
	c.Assumptions = []string{
		"time is measured in scheduling points of the controlled scheduler, not seconds; a thread that runs 120 s without reaching a scheduling point is reported as a failure of the harness run",
		"external commands are in-process stand-ins: `sleep inf` blocks until the context is done (like a child killed by DefaultExecHandler), cat copies stdin",
		"the exec kill timeout itself (real child processes) is outside this model",
	}
	var out []Case
	for _, w := range wrappers {
		for _, b := range blockers {
			if c.Quick() && w.name != "plain" && !b.never {
				continue
			}
			if c.Quick() && !quickWrappers[w.name] {
				continue
			}
			never := b.never
			if w.name == "pipe-right" && readsStdin[b.name] {
				never = false // the wrapper feeds and closes the blocker's input
			}
			cs := Case{Prop: "C31", Name: w.name + "/" + b.name, Prog: w.wrap(b.s), Bound: vc.Pick(c, 1, 2), Cancel: true, CancelHorizon: K, After: 80, Stdin: "open", NeverTerminates: never, IgnoreRace: true, PipeCap: 4}
			out = append(out, cs)
			// the same as the second Run of a Runner that was first used with
			// another (never cancelled) context
			if secondRunWrappers[w.name] && (!c.Quick() || quickSecondRun[b.name]) {
				cs2 := cs
				cs2.Name = "second-run:" + cs.Name
				cs2.Setup = "v=$(echo first); cat <(echo first) >/dev/null; echo first run"
				out = append(out, cs2)
				cs3 := cs
				cs3.Name = "second-run-fn:" + cs.Name
				cs3.Setup = "blk() { " + b.s + "\n}"
				cs3.Prog = w.wrap("blk")
				out = append(out, cs3)
			}
		}
	}
	return out
}
