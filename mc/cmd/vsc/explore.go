//go:build verif

package main

import (
	"fmt"
	"sort"
	"strings"
	"time"

	"mvdan.cc/sh/v3/vsched"
)

// Violation is one schedule on which an oracle failed.
type Violation struct {
	Kind     string `json:"kind"`
	Sig      string `json:"sig,omitempty"`
	Msg      string `json:"msg"`
	Schedule []int  `json:"schedule"`
	Detail   string `json:"detail,omitempty"`
	Bound    int    `json:"bound"`
}

// Result is what a worker reports for one case (or one slice of it).
type Result struct {
	Executions     int            `json:"executions"`
	Points         int            `json:"points"`
	MaxPoints      int            `json:"max_points"`
	MaxThreads     int            `json:"max_threads"`
	Outcomes       map[string]int `json:"outcomes"`
	Violations     []Violation    `json:"violations,omitempty"`
	BoundCompleted int            `json:"bound_completed"`
	Exhaustive     bool           `json:"exhaustive"`
	Pending        [][]int        `json:"pending,omitempty"`
	CurBound       int            `json:"cur_bound"`
	Reference      string         `json:"reference,omitempty"`
	Error          string         `json:"error,omitempty"`
	CancelPoints   int            `json:"cancel_points,omitempty"`
	AtBound        int            `json:"schedules_at_bound"`
	Retire         bool           `json:"retire,omitempty"`
	Want           string         `json:"want,omitempty"`
	Sample         []string       `json:"sample,omitempty"`
}

func cost(recs []vsched.Rec, upto int) int {
	c := 0
	for i := 0; i < upto && i < len(recs); i++ {
		r := recs[i]
		if r.CurEnabled && r.Chosen != 0 && !r.Forced {
			c++
		}
	}
	return c
}

func choices(recs []vsched.Rec, upto int) []int {
	out := make([]int, 0, upto+1)
	for i := 0; i < upto; i++ {
		out = append(out, recs[i].Chosen)
	}
	return out
}

func describe(recs []vsched.Rec) string {
	var sb strings.Builder
	for i, r := range recs {
		if r.Chosen == 0 && !r.Forced {
			continue
		}
		fmt.Fprintf(&sb, "[#%d p%d %s: threads %v -> t%d] ", i, r.Point, r.Label, r.Tids, r.Tids[r.Chosen])
	}
	return sb.String()
}

// explore runs the DFS for one case. Leak limit and deadline make it return
// early with Pending set; the coordinator then continues in a fresh process.
func explore(cs *Case, deadline time.Time) *Result {
	res := &Result{Outcomes: map[string]int{}, BoundCompleted: -1}
	// reference outcome
	want := ""
	haveWant := false
	if cs.Expect != nil {
		want, haveWant = *cs.Expect, true
	}
	if cs.RefProg != "" {
		ref := *cs
		ref.Prog, ref.RefProg, ref.Cancel, ref.Sub = cs.RefProg, "", false, ""
		x := execOnce(&ref, nil)
		if !x.MainOK {
			res.Error = "reference program did not finish: " + x.Outcome
			return res
		}
		want, haveWant = x.Outcome, true
		res.Reference = want
	}
	res.Want = want
	cancelSeen := map[int]bool{}
	check := func(x *execResult, sched []int, bound int) {
		res.Executions++
		res.Points += x.Points
		if x.Points > res.MaxPoints {
			res.MaxPoints = x.Points
		}
		for _, r := range x.Recs {
			for _, t := range r.Tids {
				if t+1 > res.MaxThreads {
					res.MaxThreads = t + 1
				}
			}
		}
		res.Outcomes[x.Outcome]++
		if len(res.Sample) < 3 {
			res.Sample = append(res.Sample, fmt.Sprintf("schedule %v: %s", sched, x.Outcome))
		}
		add := func(kind, msg, detail string) {
			sig := ""
			if kind == "race" {
				sig = raceSummary(detail)
			}
			// one witness (the first, i.e. fewest preemptions) per kind and race signature
			for _, v := range res.Violations {
				if v.Kind == kind && v.Sig == sig {
					return
				}
			}
			res.Violations = append(res.Violations, Violation{Kind: kind, Sig: sig, Msg: msg, Schedule: sched, Detail: detail, Bound: bound})
		}
		if x.Diverged {
			res.Error = fmt.Sprintf("schedule %v diverged while replaying its prefix (nondeterminism outside the scheduler)", sched)
			return
		}
		if x.Panic != "" {
			add("interp-panic", "the interpreter panicked: "+firstLine(x.Panic), x.Panic)
			return
		}
		if x.Race != "" && !cs.IgnoreRace {
			add("race", "data race reported by the Go race detector: "+raceSummary(x.Race), x.Race)
		}
		if cs.Cancel {
			cancelSeen[x.CancelPoint] = true
			switch {
			case x.CancelPoint < 0:
				add("cancel-never-ran", "the canceller was never scheduled", describe(x.Recs))
			case !x.MainOK:
				why := "deadlock: no thread enabled"
				if x.Horizon {
					why = fmt.Sprintf("still running %d points after the cancel", x.Points-x.CancelPoint)
				}
				add("cancel-not-honoured", fmt.Sprintf("Run did not return after cancel at point %d (%s; blocked threads %v)", x.CancelPoint, why, x.Blocked), describe(x.Recs))
			case x.MainDone-x.CancelPoint > cs.After:
				add("cancel-slow", fmt.Sprintf("Run returned %d points after the cancel (bound %d)", x.MainDone-x.CancelPoint, cs.After), describe(x.Recs))
			case x.RunErr == "" && cs.NeverTerminates && x.CancelPoint < x.MainDone:
				add("cancel-no-error", fmt.Sprintf("Run returned nil for a program that cannot finish on its own (cancelled at point %d, returned at point %d)", x.CancelPoint, x.MainDone), describe(x.Recs))
			}
			return
		}
		if x.Horizon {
			add("horizon", "execution exceeded the point horizon", describe(x.Recs))
			return
		}
		if !x.MainOK && (cs.NoDeadlock || haveWant || cs.Same) {
			add("deadlock", fmt.Sprintf("Run never returns on this schedule; blocked threads %v", x.Blocked), describe(x.Recs))
			return
		}
		if cs.Same && !haveWant && x.MainOK {
			want, haveWant = x.Outcome, true
			res.Want = want
		}
		if haveWant && x.MainOK && x.Outcome != want {
			add("outcome", fmt.Sprintf("outcome differs from the required one: got %s want %s", x.Outcome, want), describe(x.Recs)+" stderr="+x.Stderr)
		}
	}
	stack := cs.Pending
	bound := cs.CurBound
	if cs.Schedule != nil {
		x := execOnce(cs, cs.Schedule)
		check(x, cs.Schedule, cs.Bound)
		// determinism of replay: the same schedule twice gives the same observations
		y := execOnce(cs, cs.Schedule)
		if y.Outcome != x.Outcome || len(y.Recs) != len(x.Recs) {
			res.Error = "replaying the same schedule twice gave different observations"
		}
		res.Exhaustive = true
		return res
	}
	if stack == nil {
		stack = [][]int{{}}
	}
	execsBefore := 0
	for bound <= cs.Bound {
		for len(stack) > 0 {
			if vsched.LeakedTotal > 7000 || time.Now().After(deadline) {
				res.Pending, res.CurBound = stack, bound
				return res
			}
			prefix := stack[len(stack)-1]
			stack = stack[:len(stack)-1]
			x := execOnce(cs, prefix)
			sched := choices(x.Recs, len(x.Recs))
			check(x, sched, bound)
			if res.Error != "" {
				return res
			}
			for i := len(x.Recs) - 1; i >= len(prefix); i-- {
				r := x.Recs[i]
				if r.Forced {
					continue // the cancel horizon: the canceller is not delayed further
				}
				base := cost(x.Recs, i)
				for alt := 0; alt < r.N; alt++ {
					if alt == r.Chosen {
						continue
					}
					c := base
					if r.CurEnabled && alt != 0 {
						c++
					}
					// iterative bounding: at bound b only executions with
					// exactly b preemptions are new
					if c > bound {
						continue
					}
					p := append(choices(x.Recs, i), alt)
					stack = append(stack, p)
				}
			}
		}
		res.BoundCompleted = bound
		res.AtBound = res.Executions - execsBefore
		execsBefore = res.Executions
		bound++
		if bound <= cs.Bound {
			stack = [][]int{{}}
			// executions of lower bounds are revisited; counted once per bound
		}
	}
	res.Exhaustive = res.BoundCompleted >= cs.Bound
	res.CurBound = bound
	res.CancelPoints = len(cancelSeen)
	return res
}

func firstLine(s string) string {
	if i := strings.Index(s, "\n"); i >= 0 {
		return s[:i]
	}
	return s
}

// raceSummary extracts the two access locations of a race report.
func raceSummary(rep string) string {
	var locs []string
	lines := strings.Split(rep, "\n")
	for i, l := range lines {
		l = strings.TrimSpace(l)
		if strings.HasPrefix(l, "Write at") || strings.HasPrefix(l, "Read at") || strings.HasPrefix(l, "Previous write at") || strings.HasPrefix(l, "Previous read at") {
			kind := strings.Fields(l)[0]
			if strings.HasPrefix(l, "Previous") {
				kind = "Previous " + strings.Fields(l)[1]
			}
			// first frame inside the repository
			for j := i + 1; j < len(lines) && strings.TrimSpace(lines[j]) != ""; j++ {
				fn := strings.TrimSpace(lines[j])
				if strings.Contains(fn, "mvdan.cc/sh/v3/") && !strings.Contains(fn, "/vsched.") {
					fn = strings.TrimPrefix(fn, "mvdan.cc/sh/v3/")
					if k := strings.Index(fn, "("); k > 0 && !strings.HasPrefix(fn, "(") {
						fn = fn[:k]
					}
					locs = append(locs, kind+" in "+fn)
					break
				}
			}
		}
	}
	sort.Strings(locs)
	if len(locs) == 0 {
		return "(see report)"
	}
	return strings.Join(locs, " / ")
}
