#!/bin/bash
# usage: sweep.sh <tier> <out-file> [ids...]   runs the checks one after the other, one summary block per check
export GOFLAGS=-mod=mod GOPROXY=off GOSUMDB=off GOTOOLCHAIN=local
tier=$1; out=$2; shift 2
ids="$@"
[ -z "$ids" ] && ids=$(python3 -c "import json; print(' '.join(c['property_id'] for c in json.load(open('/verif/MANIFEST.json'))['checks']))")
: > "$out"
for id in $ids; do
  start=$(date +%s)
  /verif/run.sh $id --tier $tier > /tmp/sweep.$id.$tier.log 2>&1
  rc=$?
  end=$(date +%s)
  echo "### $id tier=$tier exit=$rc wall=$((end-start))s" >> "$out"
  grep -v '^VIOLATION' /tmp/sweep.$id.$tier.log | grep "^$id tier\|^KNOWN-FINDING\|^cap:\|^  " | cut -c1-260 | head -40 >> "$out"
done
echo "### SWEEP DONE" >> "$out"
