#!/bin/bash
# usage: run.sh <Cnn> [--tier quick|thorough] [--replay file]
# Rebuilds the checker against /repo's current working tree, then runs it.
export GOFLAGS=-mod=mod GOPROXY=off GOSUMDB=off GOTOOLCHAIN=local
export VERIF_ROOT=/verif
mkdir -p /verif/.build
out=/verif/.build/vcheck.$$
( cd /verif/mc && go1.26 build -o "$out" ./cmd/vcheck ) || { echo "vcheck: build failed" >&2; exit 2; }
mv -f "$out" /verif/.build/vcheck-$1
exec /verif/.build/vcheck-$1 "$@"
