#!/bin/bash
# usage: run.sh <Cnn> [--tier quick|thorough] [--replay file]
#        run.sh --warm     (build only: warms the Go build cache; used by setup.sh)
# Rebuilds the checker against /repo's current working tree, then runs it.
# VERIF_EXTRA_OVERLAY=<json> merges extra `go build -overlay` replacements
# (used only to try deliberate mutations of /repo files without touching /repo).
export GOFLAGS=-mod=mod GOPROXY=off GOSUMDB=off GOTOOLCHAIN=local
mkdir -p /verif/.build
out=/verif/.build/vcheck-$1.$$
ov=/verif/.build/overlay.$$.json
# add-only overlay: files under /verif/overlay/<rel> appear as /repo/<rel>
python3 - "$ov" <<'PY' || exit 2
import json, os, sys
rep = {}
for root, _, files in os.walk('/verif/overlay'):
    for f in files:
        if f.endswith('.go'):
            p = os.path.join(root, f)
            rep['/repo/' + os.path.relpath(p, '/verif/overlay')] = p
# VERIF_SKIP="c20 c21": stub out other authors' work-in-progress files so a
# compile error there does not block this run (development aid only).
import re
for sid in os.environ.get('VERIF_SKIP', '').lower().split():
    for root, _, files in os.walk('/verif/mc'):
        for f in files:
            if f.endswith('.go') and re.match(re.escape(sid) + r'(_.*)?\.go$', f.lower()):
                pkg = os.path.basename(root)
                m = re.search(r'^package (\w+)', open(os.path.join(root, f)).read(), re.M)
                if m: pkg = m.group(1)
                stub = '/verif/.build/stub_%s.go' % pkg
                open(stub, 'w').write('package %s\n' % pkg)
                rep[os.path.join(root, f)] = stub
extra = os.environ.get('VERIF_EXTRA_OVERLAY')
if extra:
    rep.update(json.load(open(extra))['Replace'])
json.dump({'Replace': rep}, open(sys.argv[1], 'w'))
PY
build_vsc() {
  # scheduler engine (C27, C31, C32): instrument interp from the working tree,
  # build the explorer with the race detector
  idir=/verif/.build/instr.$$
  rm -rf "$idir"
  ( cd /verif/mc && go1.26 run ./instr -repo /repo -shim /verif/mc/shim/vsched -out "$idir" -base "$ov" ) || { echo "vsc: instrumentation of interp failed (a concurrency construct the scheduler does not model?)" >&2; rm -rf "$idir" "$ov"; exit 2; }
  ( cd /verif/mc && go1.26 build -race -tags verif -overlay "$idir/overlay.json" -o "$1" ./cmd/vsc ) || { rm -rf "$idir" "$ov"; echo "vsc: build failed" >&2; exit 2; }
  rm -rf "$idir"
}
case "$1" in
  C27|C31|C32)
    out=/verif/.build/vsc-$1.$$
    build_vsc "$out"
    rm -f "$ov"
    "$out" "$@"
    rc=$?
    rm -f "$out"
    exit $rc
    ;;
esac
if ! ( cd /verif/mc && go1.26 build -tags verif -overlay "$ov" -o "$out" ./cmd/vcheck ); then
  # A file of ANOTHER check does not compile (work in progress): build again
  # with every other check's files stubbed out, so one broken check cannot
  # take the others down. The requested check's own files are never stubbed.
  case "${VERIF_NO_RETRY}$1" in
    C[0-9][0-9])
      own=$(echo "$1" | tr 'C' 'c')
      skip=""
      for i in $(seq -w 1 36); do [ "c$i" != "$own" ] && skip="$skip c$i"; done
      echo "vcheck: build failed; retrying with only $1's files (others stubbed)" >&2
      rm -f "$ov"
      VERIF_SKIP="$skip" VERIF_NO_RETRY=1 exec /verif/run.sh "$@"
      ;;
  esac
  if [ "$1" = "--warm" ]; then
    # setup only warms caches; each check builds (with its own fallback) again
    echo "vcheck: warm build failed (a work-in-progress check does not compile); continuing" >&2
  else
    rm -f "$ov"; echo "vcheck: build failed" >&2; exit 2
  fi
fi
if [ "$1" = "--warm" ]; then
  rm -f "$out"
  build_vsc /verif/.build/vsc-warm.$$
  rm -f /verif/.build/vsc-warm.$$ "$ov"
  exit 0
fi
rm -f "$ov"
"$out" "$@"
rc=$?
rm -f "$out"
exit $rc
