#!/bin/bash
# usage: run.sh <Cnn> [--tier quick|thorough] [--replay file]
# Rebuilds the checker against /repo's current working tree, then runs it.
export GOFLAGS=-mod=mod GOPROXY=off GOSUMDB=off GOTOOLCHAIN=local
mkdir -p /verif/.build
out=/verif/.build/vcheck.$$
ov=/verif/.build/overlay.$$.json
# add-only overlay: files under /verif/overlay/<rel> appear as /repo/<rel>
( cd /verif/overlay && printf '{"Replace":{' ; sep=
  find . -type f -name '*.go' | sort | while read -r f; do f=${f#./}; printf '%s"/repo/%s":"/verif/overlay/%s"' "$sep" "$f" "$f"; sep=,; done
  printf '}}\n' ) > "$ov"
( cd /verif/mc && go1.26 build -tags verif -overlay "$ov" -o "$out" ./cmd/vcheck ) || { rm -f "$ov"; echo "vcheck: build failed" >&2; exit 2; }
rm -f "$ov"
mv -f "$out" /verif/.build/vcheck-$1
exec /verif/.build/vcheck-$1 "$@"
