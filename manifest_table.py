ALL = ["C%02d" % i for i in range(1, 37)]
CHECKS = [
 {"id": "C34", "level": "exploration",
  "text": "every list of <=4 (quick) / <=5 (thorough) name=value pairs over a 15-pair alphabet built to collide (duplicates, prefixes, names with characters sorting before '=', invalid pairs) is compared with a Go map model on Get and Each; the space is enumerated completely",
  "note": "names probed never contain '='; case-insensitive (Windows) mode is not exercised",
  "technique": "bounded exhaustive enumeration of inputs against a reference map model"},
 {"id": "C17", "level": "exploration",
  "text": "every pattern up to the stated length over a 20-symbol metacharacter alphabet is translated by Regexp in the anchored modes the code uses, the result must compile, and its match set over ~1900 subjects plus pattern-derived subjects must equal bash 5.2's `case` match set (extglob/nocasematch as per mode); unanchored and Shortest modes are checked against the anchored language; !() goes through internal.ExtendedPatternMatcher",
  "note": "bash 5.2.15 (C.utf8) is the oracle; five narrow families where bash itself is erratic or locale-dependent are recorded as class findings in known_findings.txt; Filenames-mode semantics are decided in C19 via real globbing",
  "technique": "bounded exhaustive enumeration of (pattern, mode) with per-pattern exhaustive subject matching against bash as reference"},
 {"id": "C18", "level": "exploration",
  "text": "every string up to the stated length over a 19-symbol alphabet is used as s and as p; the language of Regexp(QuoteMeta(s)) and of Regexp(p) when HasMeta(p) is false is decided exactly by parsing the produced expression (must be ^literal$) and cross-checked by matching",
  "note": "regexp/syntax is trusted to parse the produced expression; ExtendedOperators mode is outside QuoteMeta's documented contract",
  "technique": "bounded exhaustive enumeration of inputs with exact language decision on the produced regexp"},
 {"id": "C16", "level": "exploration",
  "text": "every word up to the stated length over an 11-character brace alphabet plus 56 range/limit edge words: SplitBraces must keep the printed form and report true iff a BraceExp results; expand.Fields must equal bash 5.2's expansion; errors only above 16384 words",
  "note": "bash 5.2.15 is the oracle; words ending in an unescaped backslash are excluded (line continuation); two narrow families are recorded as class findings",
  "technique": "bounded exhaustive enumeration of inputs against bash as reference"},
]
claimed = {c["id"] for c in CHECKS}
NOT_APPLICABLE = [{"property_id": i, "reason": "check not built yet (work in progress, see DESIGN.md §9)"} for i in ALL if i not in claimed]
