ALL = ["C%02d" % i for i in range(1, 37)]
CHECKS = [
 {"id": "C34", "level": "exploration",
  "text": "every list of <=4 (quick) / <=5 (thorough) name=value pairs over a 15-pair alphabet built to collide (duplicates, prefixes, names with characters sorting before '=', invalid pairs) is compared with a Go map model on Get and Each; the space is enumerated completely",
  "note": "names probed never contain '='; case-insensitive (Windows) mode is not exercised",
  "technique": "bounded exhaustive enumeration of inputs against a reference map model"},
]
claimed = {c["id"] for c in CHECKS}
NOT_APPLICABLE = [{"property_id": i, "reason": "check not built yet (work in progress, see DESIGN.md §9)"} for i in ALL if i not in claimed]
